"""check -- decide one property: regenerate and discharge every obligation of its cone from /repo's working tree.

exit 0  every obligation discharged (or only listed known findings fail)
exit 1  VIOLATION property=<id> replay=<path> [no-failing-input-found]
exit 2  undecided (unsupported construct, solver gave neither proof nor model)
exit 3  the machinery's own guards failed (negative control passed, zero obligations, ...)
"""
import hashlib
import json
import os
import re
import subprocess
import sys
import time

HERE = os.path.dirname(os.path.abspath(__file__))
sys.path.insert(0, HERE)
os.environ.setdefault("PYVC_REPO", "/repo")

import z3  # noqa: E402
from pyvc.engine import verify_unit  # noqa: E402
from pyvc import solve  # noqa: E402
from specs.lib import REG  # noqa: E402
import props as P  # noqa: E402
import guards  # noqa: E402

REPO = os.environ["PYVC_REPO"]


def norm(name):
    return re.sub(r"#\d+", "#", name)


def load_known():
    path = os.path.join(HERE, "known_findings.json")
    if not os.path.exists(path):
        return []
    return json.load(open(path)).get("findings", [])


SCRIPTS = {"expr": "exprfam.py", "hist": "histfam.py", "defn": "defnfam.py", "ctx": "ctxfam.py", "bind": "bindfam.py", "inv": "invfam.py", "call": "callfam.py"}


def run_replay(prop, hints, out_path, unit=None):
    """Search the replay families that can exhibit a failure of this unit / property for a concrete failing input."""
    pf = P.PROPS[prop].get("replay")
    if pf is None:
        return None
    fams = []
    if unit in getattr(P, "META_UNITS", ()):
        fams.append("hist")
    if unit in getattr(P, "DEFN_UNITS", ()):
        fams.append("defn")
    if unit in P.INV_UNITS:
        fams.append("inv")
    if unit in ("kwargs_from_call", "resolve_kwdefaults"):
        fams.append("bind")
    if unit in getattr(P, "EXPR_UNITS", ()):
        fams.append("expr")
    for f in (pf, "call"):
        if f not in fams:
            fams.append(f)
    env = dict(os.environ, PYTHONPATH=REPO)
    last = None
    exclude = "|".join(sorted({k["tag"] for k in load_known() if k.get("tag")}))
    for fam in fams[:3]:
        cmd = ["/venv/bin/python", os.path.join(HERE, "replay", SCRIPTS[fam]), "--search", "--hints", ",".join(hints), "--out", out_path]
        if SCRIPTS[fam] in ("exprfam.py", "defnfam.py"):
            cmd += ["--exclude", exclude]
        try:
            subprocess.run(cmd, env=env, cwd=os.path.join(HERE, "replay"), capture_output=True, text=True, timeout=300)
            last = json.load(open(out_path))
            last["family"] = SCRIPTS[fam]
            if last.get("found"):
                return last
        except Exception as e:  # the replay harness failing is never a verdict
            last = {"found": False, "harness_error": repr(e), "family": SCRIPTS[fam]}
    return last


def main(argv):
    import argparse
    ap = argparse.ArgumentParser()
    ap.add_argument("prop")
    ap.add_argument("--tier", default=os.environ.get("VERIF_TIER", "quick"))
    a = ap.parse_args(argv)
    prop = a.prop
    tier = a.tier if a.tier in ("quick", "thorough") else "quick"
    seed = int(os.environ.get("VERIF_SEED", "0") or 0)
    z3.set_param("smt.random_seed", seed % 1000)
    t0 = time.time()
    cfg = P.PROPS[prop]
    os.makedirs(os.path.join(HERE, "evidence"), exist_ok=True)
    os.makedirs(os.path.join(HERE, "replays"), exist_ok=True)

    # -- guards against an unsound or vacuous verifier (DESIGN.md section 6) --------------------------------------
    guard_report = guards.run_guards(REG)
    if not guard_report["ok"]:
        print("SELF-CHECK FAILED: %s" % guard_report["why"])
        return 3

    units = []
    undecided = []
    all_obls = []
    for uname in cfg["units"]:
        spec = P.U[uname]
        rep = verify_unit(spec, REG, fuel=3, prop=prop)
        rep.uname = uname
        units.append(rep)
        if rep.error:
            undecided.append("%s: %s" % (uname, rep.error))
        unexpected = [x for x in getattr(rep, "unreached", []) if not any(p in x for p in spec.expected_unreached)]
        if unexpected:
            undecided.append("%s: vacuity guard: no feasible path reaches %s" % (uname, "; ".join(unexpected[:3])))
        for o, r in zip(rep.obligations, rep.results):
            tags = o.meta.get("props")
            if tags and prop not in tags:
                continue
            all_obls.append((rep, o, r))

    for th in cfg.get("theorems", []):
        rep = th()
        units.append(rep)
        if rep.error:
            undecided.append("%s: %s" % (rep.name, rep.error))
            continue
        for o, r in zip(rep.obligations, rep.results):
            all_obls.append((rep, o, r))

    # second chance, without competition for the cores, for whatever was not proved
    retry = [(rep, o, r) for rep, o, r in all_obls if r["status"] != "proved"]
    if retry and len(retry) <= 40:
        res2 = solve.discharge_all([o for _, o, _ in retry], REG.specfuns, fuel=3, jobs=8)
        for (rep, o, r), r2 in zip(retry, res2):
            if r2["status"] == "proved" or (r["status"] == "unknown" and r2["status"] == "refuted"):
                r.clear()
                r.update(r2)
                r["retried"] = True

    failing = [(rep, o, r) for rep, o, r in all_obls if r["status"] != "proved"]
    n_obl = len(all_obls)
    n_ok = n_obl - len(failing)
    if n_obl == 0 and not undecided:
        print("SELF-CHECK FAILED: zero obligations generated for %s" % prop)
        return 3

    # -- classify what failed ---------------------------------------------------------------------------------
    known = [k for k in load_known() if k.get("property") == prop and not k.get("fixed")]
    known_obl = [k for k in known if k.get("obligation")]
    groups = {}
    for rep, o, r in failing:
        groups.setdefault(norm(o.name), []).append((rep, o, r))
    violations = []
    known_hits = []
    unknown_only = []
    replay_cache = {}
    for gname, items in sorted(groups.items()):
        k = next((k for k in known_obl if re.search(k["obligation"], gname)), None)
        if k is not None:
            known_hits.append((k, gname))
            continue
        statuses = {r["status"] for _, _, r in items}
        hints = next((h for pat, h in P.REPLAY_HINTS if pat in gname), []) + cfg.get("hints", [])
        uname = getattr(items[0][0], "uname", items[0][0].spec.name())
        key = tuple(hints) + (uname in P.INV_UNITS, uname in P.DEFN_UNITS, uname in P.META_UNITS)
        if key not in replay_cache:
            h = hashlib.sha256((prop + gname).encode()).hexdigest()[:10]
            replay_cache[key] = (os.path.join("replays", "%s-%s.json" % (prop, h)), None)
            path = os.path.join(HERE, replay_cache[key][0])
            replay_cache[key] = (replay_cache[key][0], run_replay(prop, hints, path, uname))
        rpath, rres = replay_cache[key]
        reproduced = bool(rres and rres.get("found"))
        if "refuted" not in statuses and not reproduced:
            unknown_only.append(gname)
            continue
        rep, o, r = items[0]
        doc = {"property": prop, "failed_obligation": o.name, "obligation_class": gname, "instances": len(items),
               "unit": rep.unit.describe(), "path": o.meta.get("path"), "solver": {k2: v for k2, v in r.items() if k2 != "model"},
               "goal": str(o.goal)[:3000], "replay": rres if rres is not None else {"found": False, "reason": "no replay family for this property"},
               "how_to_replay": "PYTHONPATH=%s /venv/bin/python %s/replay/%s --scenario <this file>" % (REPO, HERE, (rres or {}).get("family", "callfam.py"))}
        if reproduced:
            doc["program"] = rres.get("program")
        h = hashlib.sha256((prop + gname).encode()).hexdigest()[:10]
        vpath = os.path.join("replays", "%s-%s.json" % (prop, h))
        json.dump(doc, open(os.path.join(HERE, vpath), "w"), indent=1, default=str)
        violations.append((gname, vpath, reproduced))

    # a unit that left the verified subset (an edit introduced a construct pyvc has no rule for) proves nothing; it is
    # a violation only if the replay families exhibit a failing input on the real tree, otherwise it stays undecided
    for rep in units:
        if not getattr(rep, "error", None) or not hasattr(rep, "uname"):
            continue
        h = hashlib.sha256((prop + "unsupported:" + rep.uname).encode()).hexdigest()[:10]
        vpath = os.path.join("replays", "%s-%s.json" % (prop, h))
        rres = run_replay(prop, cfg.get("hints", []), os.path.join(HERE, vpath), rep.uname)
        if rres and rres.get("found"):
            doc = {"property": prop, "failed_obligation": "%s: no obligation of this unit could be generated (%s); the replay family exhibits a failing input" % (rep.uname, rep.error),
                   "unit": rep.unit.describe(), "replay": rres, "program": rres.get("program"),
                   "how_to_replay": "PYTHONPATH=%s /venv/bin/python %s/replay/%s --scenario <this file>" % (REPO, HERE, rres.get("family"))}
            json.dump(doc, open(os.path.join(HERE, vpath), "w"), indent=1, default=str)
            violations.append(("unsupported:" + rep.uname, vpath, True))

    # bounded stand-ins for units outside the verifier's reach (labelled bounded, never counted as proved)
    bounded_report = []
    for b in cfg.get("bounded", []):
        outp = os.path.join(HERE, "replays", "%s-bounded-%s.json" % (prop, hashlib.sha256(b["unit"].encode()).hexdigest()[:8]))
        env = dict(os.environ, PYTHONPATH=REPO)
        try:
            excl = "|".join(sorted({k["tag"] for k in load_known() if k.get("tag")}))
            subprocess.run(["/venv/bin/python", os.path.join(HERE, "replay", b["script"]), "--search", "--out", outp] + (["--exclude", excl] if b["script"] in ("exprfam.py", "defnfam.py") else []), env=env,
                           cwd=os.path.join(HERE, "replay"), capture_output=True, text=True, timeout=600)
            r = json.load(open(outp))
        except Exception as e:
            r = {"found": False, "harness_error": repr(e)}
        bounded_report.append({"unit": b["unit"], "bound": b["bound"], "programs_tried": r.get("tried"), "mismatch_found": bool(r.get("found")),
                               "harness_errors": r.get("harness_errors"), "labelled": "bounded -- not counted in obligations/discharged"})
        if r.get("harness_error") or r.get("harness_errors"):
            undecided.append("bounded stand-in for %s could not run: %s" % (b["unit"], r.get("harness_error") or r.get("harness_errors")))
        elif r.get("found"):
            doc = {"property": prop, "failed_obligation": "bounded stand-in for %s: the real code disagrees with the reference" % b["unit"],
                   "replay": r, "program": r.get("program"), "how_to_replay": "PYTHONPATH=%s /venv/bin/python %s/replay/%s --scenario <this file>" % (REPO, HERE, b["script"])}
            json.dump(doc, open(outp, "w"), indent=1, default=str)
            violations.append(("bounded:" + b["unit"], os.path.relpath(outp, HERE), True))

    # recorded findings: each is re-played; it is reported (and only reported) while it still reproduces
    for kf in known:
        if not kf.get("tag"):
            continue
        outp = os.path.join(HERE, "replays", "%s-known-%s.json" % (prop, kf["id"]))
        try:
            subprocess.run(["/venv/bin/python", os.path.join(HERE, "replay", kf["family"]), "--search", "--only", kf["tag"], "--out", outp],
                           env=dict(os.environ, PYTHONPATH=REPO), cwd=os.path.join(HERE, "replay"), capture_output=True, text=True, timeout=300)
            if json.load(open(outp)).get("found"):
                print("KNOWN-FINDING: property=%s %s: %s (input: %s)" % (prop, kf["id"], kf["what"], kf["input"]))
        except Exception:
            pass

    for k, gname in known_hits:
        print("KNOWN-FINDING: property=%s %s [%s]" % (prop, k["what"], gname))
    for gname, vpath, reproduced in violations:
        print("VIOLATION property=%s replay=%s%s" % (prop, vpath, "" if reproduced else " no-failing-input-found"))
    for g in unknown_only:
        print("UNDECIDED: %s (no proof, no counter-model, no failing input found)" % g)
    for u in undecided:
        print("UNDECIDED: %s" % u)

    # -- thorough tier: deeper exploration of the same property -----------------------------------------------------
    thorough = {}
    if tier == "thorough" and not violations:
        # (a) the property's replay family is run over its whole enumeration (in the quick tier it runs only behind a failed
        #     obligation or as a bounded stand-in); a scenario that fails its reference is a violation with a replayed input
        fam = SCRIPTS.get(cfg.get("replay"))
        if fam:
            outp = os.path.join(HERE, "replays", "%s-thorough-%s.json" % (prop, fam[:-3]))
            excl = "|".join(sorted({k["tag"] for k in load_known() if k.get("tag")}))
            try:
                subprocess.run(["/venv/bin/python", os.path.join(HERE, "replay", fam), "--search", "--out", outp] + (["--exclude", excl] if fam in ("exprfam.py", "defnfam.py") else []),
                               env=dict(os.environ, PYTHONPATH=REPO), cwd=os.path.join(HERE, "replay"), capture_output=True, text=True, timeout=1800)
                r = json.load(open(outp))
            except Exception as e:
                r = {"found": False, "harness_error": repr(e)}
            thorough["replay_family"] = {"family": fam, "scenarios_tried": r.get("tried"), "mismatch_found": bool(r.get("found")), "harness_errors": r.get("harness_errors") or r.get("harness_error")}
            if r.get("found"):
                doc = {"property": prop, "failed_obligation": "thorough tier: the replay family %s disagrees with its reference on the real tree" % fam, "replay": r,
                       "program": r.get("program"), "how_to_replay": "PYTHONPATH=%s /venv/bin/python %s/replay/%s --scenario <this file>" % (REPO, HERE, fam)}
                json.dump(doc, open(outp, "w"), indent=1, default=str)
                violations.append(("thorough:" + fam, os.path.relpath(outp, HERE), True))
                print("VIOLATION property=%s replay=%s" % (prop, os.path.relpath(outp, HERE)))
        # (b) how tight are the contracts: mechanically mutated bodies of the cone's units (in memory, never /repo) are verified
        #     against the same contracts; reported only -- a surviving mutant says something about the contract, not the code
        import mutants as M
        per_unit = int(os.environ.get("VERIF_MUTANTS_PER_UNIT", "3"))
        tally = {"killed": 0, "survived": 0, "undecided": 0}
        survivors = []
        budget_end = time.time() + float(os.environ.get("VERIF_MUTANT_BUDGET_S", "900"))
        for uname in cfg["units"]:
            if time.time() > budget_end:
                break
            for desc, verdict in M.sample(P.U[uname], REG, per_unit, seed):
                tally[verdict.split(" ")[0]] += 1
                if verdict == "survived":
                    survivors.append("%s: %s" % (uname, desc))
        thorough["mutants"] = dict(tally, survivors=survivors[:40], per_unit=per_unit,
                                   note="in-memory AST mutants of the units under contract, verified against the unchanged contracts; survivors are reported, never a verdict")

    # -- evidence -----------------------------------------------------------------------------------------------
    backends = {}
    for _, _, r in all_obls:
        backends[r.get("backend") or "none"] = backends.get(r.get("backend") or "none", 0) + 1
    ev = {
        "property_id": prop, "tier": tier, "seed": seed, "level": cfg.get("level", "proof"),
        "coverage": {
            "obligations": n_obl, "discharged": n_ok,
            "checker_cmd": "python3-vt /verif/checker.py %s --tier %s  (VC generation by pyvc from %s/icontract/*.py; z3 %s)" % (prop, tier, REPO, z3.get_version_string()),
            "trusted_base": sorted(["external: %s -- %s" % kv for kv in REG.externals.items()] + ["assumption: " + x for x in REG.assumptions]
                                   + ["pyvc itself (VC generator) and its model of Python semantics (DESIGN.md 3-4)", "z3 %s" % z3.get_version_string()]),
            "units": [dict(rep.unit.describe(), paths=rep.paths, pruned_infeasible=rep.pruned, unreached_statements=getattr(rep, "unreached", []), obligations=len(rep.obligations),
                           symex_s=round(rep.symex_s, 2), solve_s=round(rep.solve_s, 2), error=rep.error) for rep in units],
            "backends": backends,
            "solver_time_s": round(sum(r.get("ms", 0) for _, _, r in all_obls) / 1000.0, 1),
            "samples": [o.name for _, o, _ in all_obls[:: max(1, len(all_obls) // 12)]][:12],
            "guards": guard_report,
            "bounded": bounded_report,
            "thorough": thorough,
            "failed_obligation_classes": sorted(groups),
            "known_findings_matched": [g for _, g in known_hits],
            "explanation": cfg.get("explanation", "every obligation listed is a verification condition generated from the current source "
                                   "of the named units against their sidecar contracts and discharged by the SMT solver"),
            "machine_arithmetic": "Python ints are mathematical integers in the encoding (they only index and count)",
        },
        "assumptions": sorted(REG.assumptions) + ["Python semantics of the executed subset as encoded by pyvc", "trusted externals listed under coverage.trusted_base"],
        "wall_s": round(time.time() - t0, 1),
        "violations": len(violations),
    }
    json.dump(ev, open(os.path.join(HERE, "evidence", "%s.json" % prop), "w"), indent=1)
    print("%s: %d/%d obligations discharged, %d units, %.0fs" % (prop, n_ok, n_obl, len(units), time.time() - t0))
    if violations:
        return 1
    if undecided or unknown_only:
        return 2
    return 0


if __name__ == "__main__":
    try:
        code = main(sys.argv[1:])
    except SystemExit:
        raise
    except BaseException as e:  # a crash of the machinery is exit 3, never a verdict
        import traceback
        traceback.print_exc()
        print("CHECKER-ERROR: %r" % (e,))
        code = 3
    sys.exit(code)

"""Mutation campaign over the units under contract (a measure of how tight the contracts are; DESIGN.md section 6).

  python3-vt tools/mutants.py [--units a,b] [--max N] [--out notes/mutants.json]
Each mutant is a mechanical change of the unit's AST *in memory* (never of /repo); it is
  killed     -- some obligation of the unit's contract is no longer proved,
  undecided  -- the mutant leaves the executor's subset (the check would exit 2, plus the replay families),
  survived   -- every obligation still verifies: either the mutant is equivalent w.r.t. the properties, or the contract
                has a hole (triage by hand; holes are closed by strengthening the contract)."""
import ast, copy, json, os, sys, time
sys.path.insert(0, os.path.dirname(os.path.abspath(__file__)))
import props
from pyvc import extract
from pyvc.engine import verify_unit

CMP = {ast.Eq: ast.NotEq, ast.NotEq: ast.Eq, ast.Lt: ast.LtE, ast.LtE: ast.Lt, ast.Gt: ast.GtE, ast.GtE: ast.Gt, ast.Is: ast.IsNot, ast.IsNot: ast.Is,
       ast.In: ast.NotIn, ast.NotIn: ast.In}


def sites(fnode):
    """(kind, node-path) pairs; a node-path is the list of (field, index) steps from the unit's root."""
    out = []

    def walk(n, path):
        if isinstance(n, (ast.FunctionDef, ast.AsyncFunctionDef)) and path:
            return  # nested closures are units of their own
        if isinstance(n, ast.If):
            out.append(("negate_if", path))
        if isinstance(n, ast.Compare) and len(n.ops) == 1 and type(n.ops[0]) in CMP:
            out.append(("swap_cmp", path))
        if isinstance(n, ast.BoolOp):
            out.append(("and_or", path))
        if isinstance(n, ast.Break):
            out.append(("break_to_continue", path))
        if isinstance(n, ast.Constant) and isinstance(n.value, bool):
            out.append(("flip_bool", path))
        if isinstance(n, ast.Constant) and type(n.value) is int and n.value in (0, 1):
            out.append(("int01", path))
        if isinstance(n, ast.BinOp) and isinstance(n.op, ast.Add):
            out.append(("swap_add", path))
        if isinstance(n, ast.UnaryOp) and isinstance(n.op, ast.Not):
            out.append(("drop_not", path))
        if isinstance(n, (ast.Expr, ast.Assign, ast.AugAssign, ast.Raise, ast.Continue)) and not (isinstance(n, ast.Expr) and isinstance(n.value, ast.Constant)):
            out.append(("delete_stmt", path))
        if isinstance(n, ast.Return) and n.value is not None and not (isinstance(n.value, ast.Constant) and n.value.value is None):
            out.append(("return_none", path))
        if isinstance(n, ast.Try) and n.finalbody:
            out.append(("drop_finally", path))
        for f, v in ast.iter_fields(n):
            if isinstance(v, list):
                for i, x in enumerate(v):
                    if isinstance(x, ast.AST):
                        walk(x, path + [(f, i)])
            elif isinstance(v, ast.AST):
                walk(v, path + [(f, None)])
    walk(fnode, [])
    return out


def get(n, path):
    for f, i in path:
        n = getattr(n, f) if i is None else getattr(n, f)[i]
    return n


def put(root, path, new):
    par = get(root, path[:-1])
    f, i = path[-1]
    if i is None:
        setattr(par, f, new)
    else:
        getattr(par, f)[i] = new


def mutate(fnode, kind, path):
    t = copy.deepcopy(fnode)
    n = get(t, path)
    if kind == "negate_if":
        n.test = ast.UnaryOp(ast.Not(), n.test)
    elif kind == "swap_cmp":
        n.ops = [CMP[type(n.ops[0])]()]
    elif kind == "and_or":
        n.op = ast.Or() if isinstance(n.op, ast.And) else ast.And()
    elif kind == "break_to_continue":
        put(t, path, ast.Continue())
    elif kind == "flip_bool":
        n.value = not n.value
    elif kind == "int01":
        n.value = 1 - n.value
    elif kind == "swap_add":
        n.left, n.right = n.right, n.left
    elif kind == "drop_not":
        put(t, path, n.operand)
    elif kind == "delete_stmt":
        put(t, path, ast.Pass())
    elif kind == "return_none":
        n.value = ast.Constant(None)
    elif kind == "drop_finally":
        n.finalbody = []
        if not n.handlers:
            par = get(t, path[:-1])
            f, i = path[-1]
            getattr(par, f)[i:i + 1] = n.body
    ast.fix_missing_locations(t)
    return t


def sample(spec, registry, n, seed=0):
    """Verify up to n mechanically chosen mutants of one unit against its contract; returns [(description, verdict)]."""
    fnode = extract.get_unit(spec.addr).node
    ss = sites(fnode)
    if not ss:
        return []
    step = max(1, len(ss) // n)
    chosen = ss[seed % step::step][:n]
    out = []
    os.environ["PYVC_STOP_FIRST"] = "1"
    try:
        for kind, path in chosen:
            node = get(fnode, path)
            desc = "%s line %s: %s" % (kind, getattr(node, "lineno", 0), ast.unparse(node).split("\n")[0][:80])
            rep = verify_unit(spec, registry, fuel=3, mutate=lambda f, k=kind, p=path: mutate(f, k, p))
            if rep.error:
                verdict = "undecided"
            else:
                bad = [o.name for o, r in zip(rep.obligations, rep.results) if r["status"] not in ("proved", "skipped")]
                verdict = ("killed by " + bad[0]) if bad else "survived"
            out.append((desc, verdict))
    finally:
        os.environ.pop("PYVC_STOP_FIRST", None)
    return out


def main(argv):
    import argparse
    ap = argparse.ArgumentParser()
    ap.add_argument("--units", default="")
    ap.add_argument("--max", type=int, default=0)
    ap.add_argument("--shard", default="")  # k/n: every n-th unit starting at k
    ap.add_argument("--out", default=os.path.join(os.path.dirname(os.path.abspath(__file__)), "notes", "mutants.json"))
    a = ap.parse_args(argv)
    os.environ["PYVC_STOP_FIRST"] = "1"
    names = [u for u in a.units.split(",") if u] or sorted(props.U)
    if a.shard:
        k, n = map(int, a.shard.split("/"))
        names = names[k::n]
    res = {}
    if os.path.exists(a.out):
        res = json.load(open(a.out))
    for uname in names:
        spec = props.U[uname]
        fnode = extract.get_unit(spec.addr).node
        ss = sites(fnode)
        if a.max:
            ss = ss[:: max(1, len(ss) // a.max)][: a.max]
        for kind, path in ss:
            src_before = ast.unparse(get(fnode, path)).split("\n")[0][:110]
            key = "%s|%s|%s|%s" % (uname, kind, getattr(get(fnode, path), "lineno", 0), src_before)
            if key in res:
                continue
            t0 = time.time()
            rep = verify_unit(spec, props.REG, fuel=3, mutate=lambda f, k=kind, p=path: mutate(f, k, p))
            if rep.error:
                verdict = "undecided: " + rep.error[:140]
            else:
                bad = [o.name for o, r in zip(rep.obligations, rep.results) if r["status"] not in ("proved", "skipped")]
                verdict = "killed: " + bad[0] if bad else "survived"
            res[key] = verdict
            print("%-9s %5.1fs %s" % (verdict.split(":")[0], time.time() - t0, key), flush=True)
            os.makedirs(os.path.dirname(a.out), exist_ok=True)
            json.dump(res, open(a.out, "w"), indent=1)
    tot = {}
    for v in res.values():
        tot[v.split(":")[0]] = tot.get(v.split(":")[0], 0) + 1
    print(tot)


if __name__ == "__main__":
    main(sys.argv[1:])

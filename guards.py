"""Guards run on every check (DESIGN.md section 6): solver canaries and negative controls.

A deliberately false contract must be refuted with a model; a deliberately missing trace event must fail its
emission obligation.  If a negative control verifies, nothing the run reports is believed (exit 3)."""
import z3

from pyvc.engine import verify_unit
from pyvc.registry import EMPTY
import specs.checkers_pure as pure
import specs.checkers_trace as tr


class _FalseEnsures(pure.AssertNoInvalidKwargs):
    def ensures_ret(self, c, v):
        return [(n, z3.Not(f)) for n, f in super().ensures_ret(c, v)][:1]


class _MissingEvent(tr.NotCheck):
    def init_trace(self, c):
        return EMPTY


def run_guards(REG):
    rep = {"ok": True, "why": None, "canary": None, "negative_controls": []}
    x = z3.Int("canary_x")
    s = z3.Solver()
    s.add(x > 0)
    a = s.check()
    s.add(x < 0)
    b = s.check()
    rep["canary"] = "%s/%s" % (a, b)
    if a != z3.sat or b != z3.unsat:
        rep.update(ok=False, why="solver canary gave %s/%s" % (a, b))
        return rep
    for spec, want in ((_FalseEnsures(), "ensures"), (_MissingEvent(), "emit")):
        r = verify_unit(spec, REG, fuel=2)
        bad = [o.name for o, res in zip(r.obligations, r.results) if res["status"] == "refuted" and not res.get("candidate") and want in o.name]
        rep["negative_controls"].append({"control": type(spec).__name__, "refuted": len(bad), "error": r.error})
        if r.error or not bad:
            rep.update(ok=False, why="negative control %s was not refuted" % type(spec).__name__)
            return rep
    return rep

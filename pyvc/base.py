"""pyvc.base -- sorts, symbolic values, state and obligations of the VC generator.

Logical model (DESIGN.md section 4):
  * every Python object is a Ref = Int.  None/True/False are 0/1/2; string literals and class tags are
    interned as distinct negative integers; allocated objects are >= the allocation counter.
  * the heap is a family of functional arrays threaded through the state.
  * Python ints that are only used for indexing/counting are mathematical Ints (kind 'int').
"""
import itertools
import z3

I = z3.IntSort()
B = z3.BoolSort()
SeqI = z3.SeqSort(I)
ArrII = z3.ArraySort(I, I)
ArrIB = z3.ArraySort(I, B)

NONE = z3.IntVal(0)
TRUE = z3.IntVal(1)
FALSE = z3.IntVal(2)

_intern = {}
_intern_rev = {}


def intern(kind, text):
    """Distinct negative integer per (kind, text): string literals 'str', class tags 'cls', singletons 'obj'."""
    key = (kind, text)
    if key not in _intern:
        n = -(len(_intern) + 10)
        _intern[key] = n
        _intern_rev[n] = key
    return z3.IntVal(_intern[key])


def strref(s):
    return intern("str", s)


def clsref(name):
    return intern("cls", name)


def objref(name):
    return intern("obj", name)


def describe_ref(n):
    if n == 0:
        return "None"
    if n == 1:
        return "True"
    if n == 2:
        return "False"
    if n in _intern_rev:
        k, t = _intern_rev[n]
        return "%s:%r" % (k, t)
    return "ref#%d" % n


# type tags ---------------------------------------------------------------------------------------
TY = z3.Function("ty", I, I)
(T_NONE, T_BOOL, T_INT, T_STR, T_LIST, T_TUPLE, T_DICT, T_SET, T_EXC, T_CLASS, T_FUNC, T_OBJ, T_CORO) = [
    z3.IntVal(i) for i in range(1, 14)
]
TYNAMES = ["?", "none", "bool", "int", "str", "list", "tuple", "dict", "set", "exc", "class", "func", "obj", "coro"]

# immutable per-object facts ------------------------------------------------------------------------
EXC_CLASS = z3.Function("exc_class", I, I)  # class of an exception object
ISINST = z3.Function("isinst", I, I, B)  # isinstance(obj, cls)
BOXINT = z3.Function("boxint", I, I)
UNBOXINT = z3.Function("unboxint", I, I)
IDOF = z3.Function("id_of", I, I)  # id(obj) as a boxed value is never needed; ids are mathematical ints

# ghost: for a list without repeated elements, the position of an element (axiom stated by whoever relies on it:
# forall j in range. LIST_INDEX(l, l[j]) == j)
LIST_INDEX = z3.Function("ghost_index_in", SeqI, I, I)  # a function of the sequence *value*: copies share it


def distinct_elements(seq, l=None):
    j = z3.Int("j!dn")
    return z3.ForAll([j], z3.Implies(z3.And(j >= 0, j < z3.Length(seq)), LIST_INDEX(seq, seq[j]) == j))


def qforall(vs, body, patterns=None):
    """ForAll with explicit triggers where z3 accepts them (a trigger may not contain ite)."""
    if patterns and not any(_has_ite(p) for p in patterns):
        try:
            return z3.ForAll(vs, body, patterns=patterns)
        except z3.Z3Exception:
            pass
    return z3.ForAll(vs, body)


def _has_ite(e):
    """z3 rejects triggers that contain ite (and prints a warning); seq.nth expands to one."""
    stack, seen = [e], set()
    while stack:
        x = stack.pop()
        if x.get_id() in seen:
            continue
        seen.add(x.get_id())
        if z3.is_app(x):
            if x.decl().kind() in (z3.Z3_OP_ITE, z3.Z3_OP_SEQ_NTH):
                return True
            stack.extend(x.children())
    return False


_fresh_counter = itertools.count()


def fresh(prefix, sort=I):
    return z3.Const("%s!%d" % (prefix, next(_fresh_counter)), sort)


class V:
    """Symbolic value. kind: ref | int | bool | str (static string) | static (python payload: tuple, closure, ...)."""

    __slots__ = ("kind", "t", "py")

    def __init__(self, kind, t=None, py=None):
        self.kind = kind
        self.t = t
        self.py = py

    def __repr__(self):
        return "V(%s,%s%s)" % (self.kind, self.t, "" if self.py is None else "," + repr(self.py))


def vref(t):
    return V("ref", t)


def vint(t):
    if isinstance(t, int):
        t = z3.IntVal(t)
    return V("int", t)


def vbool(t):
    if isinstance(t, bool):
        t = z3.BoolVal(t)
    return V("bool", t)


def vstr(s):
    return V("str", strref(s), s)


VNONE = V("ref", NONE)


class Marker:
    """Static payload that is not a Python tuple of values: enumerate(x), a generator expression, a closure."""

    def __init__(self, name, payload):
        self.name = name
        self.payload = payload

    def __repr__(self):
        return "Marker(%s)" % self.name


class Unsupported(Exception):
    """A construct outside the executor's subset: the unit is undecided (exit 2), never skipped."""


FIELD_SORTS = {
    "list": z3.ArraySort(I, SeqI),  # content of list / tuple objects
    "ddom": z3.ArraySort(I, ArrIB),  # dict domain (keys are refs)
    "dval": z3.ArraySort(I, ArrII),  # dict values
    "dord": z3.ArraySort(I, SeqI),  # dict insertion order (only where observable)
    "set": z3.ArraySort(I, ArrIB),  # set membership (elements are refs or ints)
}


def field_sort(name):
    if name in FIELD_SORTS:
        return FIELD_SORTS[name]
    if name.startswith("attr:"):
        return ArrII
    if name.startswith("has:"):
        return ArrIB
    raise KeyError(name)


class Obligation:
    __slots__ = ("name", "hyps", "goal", "kind", "meta")

    def __init__(self, name, hyps, goal, kind="ensures", meta=None):
        self.name = name
        self.hyps = list(hyps)
        self.goal = goal
        self.kind = kind
        self.meta = meta or {}


class State:
    """One symbolic path. Copy-on-fork; z3 terms are immutable so shallow copies suffice."""

    def __init__(self):
        self.vars = {}
        self.heap = {}
        self.pc = []
        self.todo = None  # Seq(Ev) still expected by the unit's trace specification
        self.time = None  # ghost clock (Int)
        self.ctr = None  # allocation counter (Int)
        self.ghost = {}
        self.path = []  # human-readable branch decisions
        self.handlers = []  # stack of active try contexts is kept in the executor, not here
        self.allocs = {}  # id of an allocation constant -> its ordinal among this activation's allocations
        self.before = {}  # id of a term -> n: the object existed before this activation's n-th allocation (spec-supplied, with the matching assumption)
        self.olds = set()  # ids of input constants (objects that existed before the unit started)

    def copy(self):
        s = State.__new__(State)
        s.vars = dict(self.vars)
        s.heap = dict(self.heap)
        s.pc = list(self.pc)
        s.todo = self.todo
        s.time = self.time
        s.ctr = self.ctr
        s.ghost = dict(self.ghost)
        s.path = list(self.path)
        s.handlers = list(self.handlers)
        s.allocs = dict(self.allocs)
        s.before = dict(self.before)
        s.olds = set(self.olds)
        return s

    def _distinct(self, a, b):
        """Syntactic distinctness of two refs: different numerals, two allocations, or an allocation and an input."""
        if z3.is_int_value(a) and z3.is_int_value(b):
            return a.as_long() != b.as_long()
        ia, ib = a.get_id(), b.get_id()
        if ia == ib:
            return False
        fa, fb = ia in self.allocs, ib in self.allocs
        if fa and fb:
            return True
        if fa and (ib in self.olds or (z3.is_int_value(b) and b.as_long() <= 2)):
            return True
        if fb and (ia in self.olds or (z3.is_int_value(a) and a.as_long() <= 2)):
            return True
        if fa and ib in self.before and self.allocs[ia] >= self.before[ib]:
            return True
        if fb and ia in self.before and self.allocs[ib] >= self.before[ia]:
            return True
        return False

    def mark_before(self, term, n, bound):
        """`term` denotes an object that existed before this activation's n-th allocation (whose ref is >= bound)."""
        self.assume(term < bound)
        self.before[term.get_id()] = n

    # heap ---------------------------------------------------------------------------------------
    def field(self, name):
        if name not in self.heap:
            self.heap[name] = z3.Const("H0_" + name, field_sort(name))
        return self.heap[name]

    def get(self, name, ref):
        """Read a field; stores to syntactically distinct objects are skipped so that terms stay in the shape the
        hypotheses about input objects were stated in (helps E-matching; semantically the identity)."""
        arr = self.field(name)
        while z3.is_app_of(arr, z3.Z3_OP_STORE):
            a, idx, v = arr.children()
            if idx.eq(ref):
                return v
            if self._distinct(idx, ref):
                arr = a
            else:
                break
        return z3.Select(arr, ref)

    def put(self, name, ref, val):
        self.heap[name] = z3.Store(self.field(name), ref, val)

    def assume(self, *fs):
        for f in fs:
            self.pc.append(f)

    def alloc(self, ty, prefix="o"):
        """Fresh object: its ref is the current counter value (hence distinct from every earlier object)."""
        r = fresh(prefix)
        self.assume(r == self.ctr, TY(r) == ty)
        self.ctr = r + 1
        self.allocs[r.get_id()] = len(self.allocs)
        return r

"""pyvc.solve -- discharge verification conditions.

Recursive specification functions are uninterpreted; their definitions are added as ground unfolding
instances for every application that occurs in the query (fuel), DESIGN.md section 5.
Back ends: z3 (python wheel, in-process), then /usr/bin/z3 4.8.12 and /usr/bin/cvc5 on SMT-LIB text for
whatever the first leaves `unknown`.
"""
import subprocess
import tempfile
import time
import os
import re
import z3


class SpecFun:
    """Uninterpreted function with a definitional unfolding: defn(*args) -> Bool (may mention other SpecFuns)."""

    def __init__(self, name, sorts, defn=None):
        self.name = name
        self.decl = z3.Function(name, *sorts)
        self.defn = defn

    def __call__(self, *args):
        return self.decl(*args)


def _apps(exprs, names):
    """All applications of the named functions occurring in exprs."""
    seen = set()
    out = []
    stack = list(exprs)
    while stack:
        e = stack.pop()
        if not z3.is_expr(e):
            continue
        i = e.get_id()
        if i in seen:
            continue
        seen.add(i)
        if z3.is_quantifier(e):
            stack.append(e.body())
            continue
        if z3.is_app(e):
            if e.decl().name() in names and e.num_args() > 0:
                out.append(e)
            stack.extend(e.children())
    return out


def _has_free_var(e):
    stack = [e]
    seen = set()
    while stack:
        x = stack.pop()
        if x.get_id() in seen:
            continue
        seen.add(x.get_id())
        if z3.is_var(x):
            return True
        if z3.is_quantifier(x):
            stack.append(x.body())
        elif z3.is_app(x):
            stack.extend(x.children())
    return False


def unfold(formulas, specfuns, fuel):
    """Return the unfolding instances (list of Bool) for `fuel` rounds."""
    names = {n for n, f in specfuns.items() if f.defn is not None}
    extra = []
    done = set()
    frontier = list(formulas)
    for _ in range(fuel):
        new = []
        for app in _apps(frontier, names):
            if app.get_id() in done or _has_free_var(app):
                continue
            done.add(app.get_id())
            d = specfuns[app.decl().name()].defn(*app.children())
            if d is not None:
                new.append(d)
        if not new:
            break
        extra.extend(new)
        frontier = new
    return extra


_QUICK_MS = 3000


def quick_sat(pc, specfuns, fuel=1):
    s = z3.Solver()
    s.set("timeout", _QUICK_MS)
    s.add(*pc)
    if specfuns:
        s.add(*unfold(pc, specfuns, fuel))
    return str(s.check())


def _smt2(hyps, goal_neg):
    s = z3.Solver()
    s.add(*hyps)
    s.add(goal_neg)
    return s.to_smt2()


def _run_cli(cmd, text, timeout_s):
    with tempfile.NamedTemporaryFile("w", suffix=".smt2", delete=False, dir=os.environ.get("PYVC_TMP", None)) as f:
        f.write(text)
        path = f.name
    try:
        p = subprocess.run(cmd + [path], capture_output=True, text=True, timeout=timeout_s + 5)
        out = (p.stdout or "").strip().splitlines()
        return out[0].strip() if out else "unknown"
    except subprocess.TimeoutExpired:
        return "unknown"
    finally:
        os.unlink(path)


def discharge(obl, specfuns, fuel=2, timeout_ms=10000, backends=("z3py", "z3cli")):
    """Try to prove obl.  Returns dict(status=proved|refuted|unknown, backend, ms, model?)."""
    t0 = time.time()
    if obl.meta.get("trivial"):
        return {"status": "proved", "backend": "z3-simplifier", "fuel": 0, "ms": 0}
    neg = z3.Not(obl.goal)
    result = {"status": "unknown", "backend": None, "fuel": None}
    for f in range(1, fuel + 1):
        base = list(obl.hyps) + [neg]
        extra = unfold(base, specfuns, f)
        s = z3.Solver()
        s.set("timeout", timeout_ms)
        s.add(*base)
        s.add(*extra)
        r = s.check()
        if r == z3.unsat:
            result.update(status="proved", backend="z3py-%s" % z3.get_version_string(), fuel=f)
            break
        if r == z3.sat:
            # under bounded unfolding a sat answer may be an artefact; deeper fuel may still prove it
            result.update(status="refuted", backend="z3py", fuel=f, model=s.model())
            continue
        result.update(status="unknown", backend="z3py", fuel=f)
        if "z3cli" in backends:
            text = _smt2(base + extra, z3.BoolVal(True))
            r2 = _run_cli(["/usr/bin/z3", "-T:%d" % max(1, timeout_ms // 1000)], text, timeout_ms // 1000)
            if r2 == "unsat":
                result.update(status="proved", backend="z3cli-4.8.12", fuel=f)
                break
    result["ms"] = int((time.time() - t0) * 1000)
    return result


def discharge_all(obls, specfuns, fuel=2, timeout_ms=10000, progress=None):
    out = []
    for o in obls:
        r = discharge(o, specfuns, fuel=fuel, timeout_ms=timeout_ms)
        out.append(r)
        if progress:
            progress(o, r)
    return out


def model_value(model, term):
    try:
        return model.eval(term, model_completion=True)
    except z3.Z3Exception:
        return None

"""pyvc.solve -- discharge verification conditions.

Recursive specification functions are uninterpreted; their definitions are added as ground unfolding
instances for every application that occurs in the query (fuel), DESIGN.md section 5.
Back ends: z3 (python wheel, in-process), then /usr/bin/z3 4.8.12 and /usr/bin/cvc5 on SMT-LIB text for
whatever the first leaves `unknown`.
"""
import subprocess
import tempfile
import time
import os
import re
import z3


class SpecFun:
    """Uninterpreted function with a definitional unfolding: defn(*args) -> Bool (may mention other SpecFuns)."""

    def __init__(self, name, sorts, defn=None):
        self.name = name
        self.decl = z3.Function(name, *sorts)
        self.defn = defn

    def __call__(self, *args):
        return self.decl(*args)


def _apps(exprs, names):
    """All applications of the named functions occurring in exprs."""
    seen = set()
    out = []
    stack = list(exprs)
    while stack:
        e = stack.pop()
        if not z3.is_expr(e):
            continue
        i = e.get_id()
        if i in seen:
            continue
        seen.add(i)
        if z3.is_quantifier(e):
            stack.append(e.body())
            continue
        if z3.is_app(e):
            if e.decl().name() in names and e.num_args() > 0:
                out.append(e)
            stack.extend(e.children())
    return out


def _has_free_var(e):
    stack = [e]
    seen = set()
    while stack:
        x = stack.pop()
        if x.get_id() in seen:
            continue
        seen.add(x.get_id())
        if z3.is_var(x):
            return True
        if z3.is_quantifier(x):
            stack.append(x.body())
        elif z3.is_app(x):
            stack.extend(x.children())
    return False


def unfold(formulas, specfuns, fuel):
    """Return the unfolding instances (list of Bool) for `fuel` rounds."""
    names = {n for n, f in specfuns.items() if f.defn is not None}
    extra = []
    done = set()
    added = set()
    frontier = list(formulas)
    for _ in range(fuel):
        new = []
        for app in _apps(frontier, names):
            if app.get_id() in done or _has_free_var(app):
                continue
            done.add(app.get_id())
            d = specfuns[app.decl().name()].defn(*app.children())
            if d is not None and d.get_id() not in added:
                added.add(d.get_id())
                new.append(d)
        if not new:
            break
        extra.extend(new)
        frontier = new
    return extra


_QUICK_MS = 1500


def _has_quantifier(e, memo):
    stack = [e]
    seen = set()
    while stack:
        x = stack.pop()
        i = x.get_id()
        if i in seen:
            continue
        seen.add(i)
        if i in memo:
            if memo[i]:
                return True
            continue
        if z3.is_quantifier(x):
            memo[e.get_id()] = True
            return True
        if z3.is_app(x):
            stack.extend(x.children())
    memo[e.get_id()] = False
    return False


_QMEMO = {}


def quick_sat(pc, specfuns, fuel=1):
    """Feasibility of a path condition, for pruning only: quantified facts are left out (weaker hypotheses can only
    keep an infeasible path, never drop a feasible one)."""
    s = z3.Solver()
    s.set("timeout", _QUICK_MS)
    pc = [f for f in pc if not _has_quantifier(f, _QMEMO)]
    s.add(*pc)
    if specfuns:
        s.add(*unfold(pc, specfuns, fuel))
    return str(s.check())


def _smt2(hyps, goal_neg):
    s = z3.Solver()
    s.add(*hyps)
    s.add(goal_neg)
    return s.to_smt2()


def _run_cli(cmd, text, timeout_s):
    with tempfile.NamedTemporaryFile("w", suffix=".smt2", delete=False, dir=os.environ.get("PYVC_TMP", None)) as f:
        f.write(text)
        path = f.name
    try:
        p = subprocess.run(cmd + [path], capture_output=True, text=True, timeout=timeout_s + 5)
        out = (p.stdout or "").strip().splitlines()
        return out[0].strip() if out else "unknown"
    except subprocess.TimeoutExpired:
        return "unknown"
    finally:
        os.unlink(path)


def _mentions_heavy_seq(e, cache):
    """Does the formula mention a sequence that is not a Seq(Int) (i.e. the event trace)?"""
    stack = [e]
    seen = set()
    while stack:
        x = stack.pop()
        i = x.get_id()
        if i in seen:
            continue
        seen.add(i)
        if i in cache:
            if cache[i]:
                return True
            continue
        srt = x.sort()
        if srt.kind() == z3.Z3_SEQ_SORT and not srt.basis().eq(z3.IntSort()):
            return True
        if z3.is_quantifier(x):
            stack.append(x.body())
        elif z3.is_app(x):
            stack.extend(x.children())
    return False


class _Resolver:
    """Path-specialised unfolding: If-conditions of a definition that the hypotheses decide are resolved before the
    definition is handed to the solver (sound: hyps |= c  implies  If(c,a,b) = a under hyps)."""

    def __init__(self, facts, ms=400):
        self.s = z3.Solver()
        self.s.set("timeout", ms)
        self.s.add(*facts)
        self.cache = {}
        self.checks = 0

    def decide(self, c):
        k = c.get_id()
        if k in self.cache:
            return self.cache[k]
        r = None
        self.checks += 2
        self.s.push()
        self.s.add(z3.Not(c))
        if self.s.check() == z3.unsat:
            r = True
        self.s.pop()
        if r is None:
            self.s.push()
            self.s.add(c)
            if self.s.check() == z3.unsat:
                r = False
            self.s.pop()
        self.cache[k] = r
        return r

    def resolve(self, e, memo):
        k = e.get_id()
        if k in memo:
            return memo[k]
        out = e
        if z3.is_app(e) and e.num_args() > 0 and not z3.is_quantifier(e):
            if z3.is_app_of(e, z3.Z3_OP_ITE):
                c, a, b = e.children()
                d = self.decide(c)
                if d is True:
                    out = self.resolve(a, memo)
                elif d is False:
                    out = self.resolve(b, memo)
                else:
                    out = z3.If(c, self.resolve(a, memo), self.resolve(b, memo))
            else:
                ch = e.children()
                nch = [self.resolve(x, memo) for x in ch]
                if any(not x.eq(y) for x, y in zip(ch, nch)):
                    out = e.decl()(*nch)
        memo[k] = out
        return out


def _skolemize_goal(goal):
    """Replace the universally quantified variables of a goal (also under conjunctions / implications) by fresh
    constants: proving the instance for arbitrary constants proves the goal."""
    consts = []

    def fresh_for(q):
        vs = [z3.FreshConst(q.var_sort(i), "sk_" + q.var_name(i).replace("!", "_")) for i in range(q.num_vars())]
        consts.extend(vs)
        return vs

    def go(g, depth=0):
        if depth > 6:
            return g
        if z3.is_quantifier(g) and g.is_forall():
            return go(z3.substitute_vars(g.body(), *reversed(fresh_for(g))), depth + 1)
        if z3.is_not(g) and z3.is_quantifier(g.arg(0)) and g.arg(0).is_exists():
            q = g.arg(0)
            return z3.Not(z3.substitute_vars(q.body(), *reversed(fresh_for(q))))
        if z3.is_and(g):
            return z3.And([go(c, depth + 1) for c in g.children()])
        if z3.is_implies(g):
            return z3.Implies(g.arg(0), go(g.arg(1), depth + 1))
        return g

    return go(goal), consts


def _ground_terms(e, limit=24):
    """Ground Int-sorted terms of interest in e: uninterpreted constants and applications of uninterpreted functions."""
    out = {}
    stack = [e]
    seen = set()
    while stack:
        x = stack.pop()
        if x.get_id() in seen:
            continue
        seen.add(x.get_id())
        if z3.is_quantifier(x):
            continue
        if z3.is_int_value(x) and x.as_long() < 0:
            out[x.get_id()] = x  # an interned name / class tag / singleton mentioned by the goal
        elif z3.is_app(x):
            if (x.sort().eq(z3.IntSort()) and x.decl().kind() == z3.Z3_OP_UNINTERPRETED and not _has_free_var(x)
                    and len(str(x)) < 160):
                out[x.get_id()] = x
            stack.extend(x.children())
    return sorted(out.values(), key=lambda t: len(str(t)))[:limit]


def _instantiate(hyps, terms, cap=400):
    """Instances of universally quantified Int-variable hypotheses at the given ground terms."""
    import itertools
    inst = []
    for h in hyps:
        conj = h.children() if z3.is_and(h) else [h]
        for q in conj:
            if not (z3.is_quantifier(q) and q.is_forall()):
                continue
            n = q.num_vars()
            if n > 2 or any(not q.var_sort(i).eq(z3.IntSort()) for i in range(n)):
                continue
            for tup in itertools.product(terms, repeat=n):
                inst.append(z3.substitute_vars(q.body(), *reversed(tup)))
                if len(inst) >= cap:
                    return inst
    return inst


STRATEGIES = [
    # name, per-check timeout (ms), drop quantified hypotheses, mbqi
    ("qf", 2500, True, False),
    ("groundqf", 4000, False, False),  # goal skolemised, hypotheses instantiated at its ground terms, then quantifier-free
    ("ground", 15000, False, False),
    ("ematch", 10000, False, False),
    ("full", 6000, False, True),
    # counter-model search: quantified hypotheses replaced by their ground instances; a model found this way is a
    # *candidate* (it may violate a dropped quantified fact) and has to be validated by replay on the real code
    ("cex", 6000, True, True),
]


def discharge(obl, specfuns, fuel=2, timeout_ms=10000, strategy=("full", 10000, False, True)):
    """One strategy on one obligation.  Returns dict(status=proved|refuted|unknown, backend, ms, model?).
    `refuted` is only ever reported by a strategy that keeps every hypothesis."""
    t0 = time.time()
    if obl.meta.get("trivial"):
        return {"status": "proved", "backend": "z3-simplifier", "fuel": 0, "ms": 0, "strategy": "simplify"}
    sname, tmo, drop_q, mbqi = strategy
    # a goal that literally is one of the hypotheses (an invariant conjunct untouched by the path) needs no solver
    parts = obl.goal.children() if z3.is_and(obl.goal) else [obl.goal]
    hyp_ids = {h.get_id() for h in obl.hyps}

    def qkey(q):  # a universally quantified formula up to its patterns / ids: sorts of the bound variables and the body
        return (q.is_forall(), tuple(q.var_sort(i).name() for i in range(q.num_vars())), q.body().get_id())
    if any(z3.is_quantifier(g) for g in parts):
        qkeys = set()
        for h in obl.hyps:
            if z3.is_quantifier(h):  # z3.simplify is not idempotent on quantified formulas: compare up to two rounds
                h1 = z3.simplify(h)
                qkeys |= {qkey(x) for x in (h, h1, z3.simplify(h1)) if z3.is_quantifier(x)}
        ok = all(g.get_id() in hyp_ids or (z3.is_quantifier(g) and qkey(g) in qkeys) for g in parts)
    else:
        ok = all(g.get_id() in hyp_ids for g in parts)
    if parts and ok:
        return {"status": "proved", "backend": "syntactic (goal is a hypothesis)", "fuel": 0, "ms": 0, "strategy": "syntactic"}
    neg = z3.Not(obl.goal)
    result = {"status": "unknown", "backend": None, "fuel": None, "strategy": sname}
    memo = {}
    for f in (fuel,):  # one query at full fuel: an unprovable low-fuel instance only burns its timeout
        sk = []
        if sname in ("ground", "groundqf", "cex"):
            # skolemize first: the definitions of spec-function applications on the skolem constants get unfolded too
            g2, sk = _skolemize_goal(obl.goal)
            neg = z3.Not(g2)
        base = list(obl.hyps) + [neg]
        extra = unfold(base, specfuns, f)
        hyps = list(obl.hyps) + extra
        allh = hyps
        if drop_q:
            hyps = [h for h in hyps if not _has_quantifier(h, memo)]
        if sname == "cex":
            terms = sk + [t for t in _ground_terms(g2) if all(not t.eq(c) for c in sk)]
            hyps = hyps + [i for i in _instantiate(allh, terms, cap=300) if not _has_quantifier(i, memo)]
            if _has_quantifier(neg, memo):
                hyps = None
        if hyps is None:
            break
        if sname == "ground" and z3.is_quantifier(obl.goal) and obl.goal.is_exists():
            # an existential goal: its negation is a universal fact; instantiate it at the ground terms of the hypotheses
            q = obl.goal
            vs = [z3.Const("neg_" + q.var_name(i).replace("!", "_"), q.var_sort(i)) for i in range(q.num_vars())]
            negq = z3.ForAll(vs, z3.Not(z3.substitute_vars(q.body(), *reversed(vs))))
            cands = []
            for h in hyps:
                if not _has_quantifier(h, memo):
                    cands.extend(_ground_terms(h, limit=8))
            seen_ids, uniq = set(), []
            for t in sorted(cands, key=lambda t: len(str(t))):
                if t.get_id() not in seen_ids:
                    seen_ids.add(t.get_id())
                    uniq.append(t)
            inst1 = _instantiate(allh, uniq[:10], cap=150)
            more = []
            for t in inst1:
                more.extend(_ground_terms(t, limit=6))
            for t in sorted(more, key=lambda t: len(str(t))):
                if t.get_id() not in seen_ids:
                    seen_ids.add(t.get_id())
                    uniq.append(t)
            hyps = hyps + inst1 + _instantiate([negq], uniq[:30], cap=900)
        if sname == "groundqf" and not sk:
            break  # nothing to instantiate at: the plain qf strategy has covered this
        if sname in ("ground", "groundqf"):
            terms = sk + ([] if sname == "groundqf" else [t for t in _ground_terms(g2) if all(not t.eq(c) for c in sk)])
            inst = _instantiate(hyps, terms)
            # second round: the instances mention new ground terms (e.g. ghost index of the skolem key)
            more = []
            for t in inst[:60]:
                more.extend(_ground_terms(t, limit=6))
            seen = {t.get_id() for t in terms}
            more = [t for t in more if t.get_id() not in seen][:10]
            if sname != "groundqf":
                inst += _instantiate(hyps, more, cap=200)
            hyps = hyps + inst
            if sname == "groundqf":
                hyps = [h for h in hyps if not _has_quantifier(h, memo)]
        s = z3.Solver()
        s.set("timeout", tmo)
        if not mbqi:
            s.set("smt.mbqi", False)
        s.add(*hyps)
        s.add(neg)
        r = s.check()
        if r == z3.unsat:
            result.update(status="proved", backend="z3py-%s/%s" % (z3.get_version_string(), sname), fuel=f)
            break
        if r == z3.sat and sname == "cex":
            result.update(status="refuted", backend="z3py/cex", fuel=f, model=s.model(), candidate=True)
            continue
        if r == z3.sat and not drop_q and sname != "groundqf":  # (groundqf dropped hypotheses: its models mean nothing)
            # under bounded unfolding a sat answer may be an artefact; deeper fuel may still prove it
            result.update(status="refuted", backend="z3py/%s" % sname, fuel=f, model=s.model())
            continue
        result.update(status="unknown", backend="z3py/%s" % sname, fuel=f)
    result["ms"] = int((time.time() - t0) * 1000)
    return result


def _child(conn, o, specfuns, fuel, strategy):
    try:
        r = discharge(o, specfuns, fuel=fuel, strategy=strategy)
        m = r.pop("model", None)
        if m is not None:
            r["model_str"] = str(m)[:6000]
    except Exception as e:  # a crash of the solver front end is "unknown", never a verdict
        r = {"status": "unknown", "backend": "crash: %r" % (e,), "fuel": None, "ms": 0, "strategy": strategy[0]}
    conn.send(r)
    conn.close()


_SIMP = {}


def _simp_id(h):
    k = h.get_id()
    if k not in _SIMP:
        try:
            _SIMP[k] = (h, z3.simplify(h).get_id())  # (the term is kept alive: ids are reused after collection)
        except z3.Z3Exception:
            _SIMP[k] = (h, k)
    return _SIMP[k][1]


def _is_a_hypothesis(o):
    """The goal (already simplified by `oblige`), or each of its conjuncts, is literally one of the path's hypotheses once
    that is simplified the same way: an invariant conjunct the path did not touch.  No solver needed."""
    parts = o.goal.children() if z3.is_and(o.goal) else [o.goal]
    if not parts:
        return False
    ids = set()
    for h in o.hyps:
        ids.add(h.get_id())
        ids.add(_simp_id(h))
    return o.goal.get_id() in ids or all(g.get_id() in ids for g in parts)


def discharge_all(obls, specfuns, fuel=2, timeout_ms=10000, progress=None, jobs=None, strategies=None):
    """Discharge every obligation: one fork()ed child per (obligation, strategy) -- the z3 terms are shared
    copy-on-write -- at most `jobs` at a time, each under a hard wall-clock deadline (z3 occasionally ignores its
    own timeout).  Strategies are tried in order until one proves the obligation."""
    import multiprocessing as mp
    jobs = jobs or int(os.environ.get("PYVC_JOBS", "16"))
    strategies = strategies or STRATEGIES
    out = [None] * len(obls)
    pending = []
    for i, o in enumerate(obls):
        if o.meta.get("trivial"):
            out[i] = discharge(o, specfuns)
        elif _is_a_hypothesis(o):
            out[i] = {"status": "proved", "backend": "syntactic (goal is a hypothesis up to simplification)", "fuel": 0, "ms": 0, "strategy": "syntactic"}
        else:
            pending.append((i, 0))
    ctx = mp.get_context("fork")
    running = {}
    spent = {}

    attempts = {}
    stop_first = bool(os.environ.get("PYVC_STOP_FIRST"))  # mutation runs: one failed obligation decides
    failed = []

    def finish(i, k, r):
        spent[i] = spent.get(i, 0) + r.get("ms", 0)
        attempts.setdefault(i, []).append("%s:%s:%sms:%s" % (r.get("strategy"), r["status"], r.get("ms"), r.get("backend")))
        r["attempts"] = attempts[i]
        prev = out[i]
        if r["status"] == "proved" or k + 1 >= len(strategies):
            if r["status"] == "unknown" and prev is not None and prev["status"] == "refuted":
                r = prev
            r["ms"] = spent[i]
            out[i] = r
            if r["status"] != "proved":
                failed.append(i)
                failed_classes[klass(i)] = failed_classes.get(klass(i), 0) + 1
            if progress:
                progress(obls[i], r)
        else:
            if r["status"] == "refuted" or prev is None:
                out[i] = r
            nxt = k + 1
            if strategies[nxt][0] == "cex" and out[i]["status"] == "refuted":
                out[i]["ms"] = spent[i]
                failed.append(i)
                failed_classes[klass(i)] = failed_classes.get(klass(i), 0) + 1
                if progress:
                    progress(obls[i], out[i])
            else:
                pending.append((i, nxt))

    def klass(i):
        return re.sub(r"#\d+|\[\d+\]", "#", obls[i].name)
    failed_classes = {}

    while pending or running:
        while pending and len(running) < jobs:
            i, k = pending.pop(0)
            if failed_classes.get(klass(i), 0) >= 3 and k == 0:
                # three obligations of this class (same clause, other paths) have already failed: the verdict for the unit is
                # settled and the remaining instances are not worth the solver's whole ladder
                out[i] = {"status": "unknown", "backend": "not run: three instances of this obligation class already failed", "fuel": None, "ms": 0, "strategy": None}
                continue
            pc, cc = ctx.Pipe(duplex=False)
            p = ctx.Process(target=_child, args=(cc, obls[i], specfuns, fuel, strategies[k]))
            p.start()
            cc.close()
            running[(i, k)] = (p, pc, time.time(), strategies[k][1] / 1000.0 * 1.5 + 4)
        done = []
        for key, (p, pc, t0, dl) in running.items():
            i, k = key
            ms = int((time.time() - t0) * 1000)
            if pc.poll(0):
                try:
                    r = pc.recv()
                except EOFError:
                    r = {"status": "unknown", "backend": "child died", "fuel": None, "ms": ms, "strategy": strategies[k][0]}
                p.join()
                done.append((key, r))
            elif not p.is_alive():
                done.append((key, {"status": "unknown", "backend": "child died", "fuel": None, "ms": ms, "strategy": strategies[k][0]}))
            elif time.time() - t0 > dl:
                p.kill()
                p.join()
                done.append((key, {"status": "unknown", "backend": "hard-timeout/%s" % strategies[k][0], "fuel": None, "ms": ms, "strategy": strategies[k][0]}))
        for key, r in done:
            running[key][1].close()
            del running[key]
            finish(key[0], key[1], r)
        if stop_first and failed:
            for key, (p, pc, t0, dl) in running.items():
                p.kill()
                p.join()
                pc.close()
            return [r if r is not None and (r["status"] == "proved" or i in failed) else {"status": "skipped", "backend": None, "ms": 0} for i, r in enumerate(out)]
        if not done:
            time.sleep(0.004)
    return out


def model_value(model, term):
    try:
        return model.eval(term, model_completion=True)
    except z3.Z3Exception:
        return None

"""pyvc.symex_expr -- expression evaluation (mixin). Every evaluation returns [(state, V | Raise)]."""
import ast
import z3

from .base import (
    V, Unsupported, fresh, vref, vint, vbool, vstr, VNONE, NONE, TRUE, FALSE, I, B, SeqI,
    TY, T_LIST, T_TUPLE, T_DICT, T_SET, T_STR, ISINST, clsref, strref,
)
from .symex import Raise, dotted


class ExprMixin:
    # -- plumbing --------------------------------------------------------------------------------------
    def bind(self, branches, f):
        out = []
        for st, res in branches:
            if isinstance(res, Raise):
                out.append((st, res))
            else:
                out.extend(f(st, res))
        return out

    def eval_list(self, st, nodes):
        """Evaluate nodes left to right; result value is a python list of V."""
        branches = [(st, [])]
        for n in nodes:
            nxt = []
            for s, acc in branches:
                if isinstance(acc, Raise):
                    nxt.append((s, acc))
                    continue
                for s2, r in self.eval(s, n):
                    nxt.append((s2, r if isinstance(r, Raise) else acc + [r]))
            branches = nxt
        return branches

    def eval(self, st, node):
        m = getattr(self, "e_" + type(node).__name__, None)
        if m is None:
            raise Unsupported("expression %s at line %s" % (type(node).__name__, getattr(node, "lineno", "?")))
        return m(st, node)

    # -- leaves ------------------------------------------------------------------------------------------
    def e_Constant(self, st, node):
        v = node.value
        if v is None:
            return [(st, VNONE)]
        if v is True or v is False:
            return [(st, vbool(v))]
        if isinstance(v, int):
            return [(st, vint(v))]
        if isinstance(v, str):
            return [(st, vstr(v))]
        raise Unsupported("constant %r" % (v,))

    def e_Name(self, st, node):
        if node.id in st.vars:
            return [(st, st.vars[node.id])]
        g = self.registry.global_value(self, st, node.id)
        if g is not None:
            return [(st, g)]
        raise Unsupported("unbound name %s (line %s)" % (node.id, node.lineno))

    def e_JoinedStr(self, st, node):
        parts = [v.value for v in node.values if isinstance(v, ast.FormattedValue)]
        return self.bind(self.eval_list(st, parts), lambda s, vs: [(s, self.opaque_str(s))])

    def opaque_str(self, st):
        r = fresh("str")
        st.assume(TY(r) == T_STR, r > 2, r < st.ctr)
        return V("ref", r, "opaque_str")

    # -- attribute / subscript loads -------------------------------------------------------------------
    def e_Attribute(self, st, node):
        d = dotted(node)
        if d is not None and (not isinstance(node.value, ast.Name) or node.value.id not in st.vars):
            root = d.split(".")[0]
            if root not in st.vars:
                g = self.registry.global_value(self, st, d)
                if g is not None:
                    return [(st, g)]
        return self.bind(self.eval(st, node.value), lambda s, o: self.load_attr(s, o, node.attr, node))

    def load_attr(self, st, o, attr, node=None):
        hook = getattr(self.spec, "attr_hook", None)
        if hook is not None:
            r = hook(self, st, o, attr)
            if r is not None:
                return r
        r = self.registry.attr_hook(self, st, o, attr)
        if r is not None:
            return r
        if o.kind != "ref":
            raise Unsupported("attribute %s of %r" % (attr, o))
        v = st.get("attr:" + attr, o.t)
        st.assume(v < st.ctr)  # heap well-formedness: a stored reference denotes an allocated (or interned) object
        return [(st, V("ref", v, self.registry.attr_hints.get(attr)))]

    def e_Subscript(self, st, node):
        def f(s, vs):
            o, k = vs
            return self.load_item(s, o, k)
        if isinstance(node.slice, ast.Slice):
            return self.bind(self.eval(st, node.value), lambda s, o: self.load_slice(s, o, node.slice))
        return self.bind(self.eval_list(st, [node.value, node.slice]), f)

    def load_item(self, st, o, k):
        if o.kind == "static" and isinstance(o.py, (tuple, list)) and k.kind == "int" and z3.is_int_value(k.t):
            return [(st, o.py[k.t.as_long()])]
        if o.kind == "ref" and o.py in ("list", "tuple") or (o.kind == "ref" and k.kind == "int"):
            seq = st.get("list", o.t)
            i = self.to_int(st, k)
            n = z3.Length(seq)
            i2 = z3.If(i < 0, i + n, i)
            out = []
            for s, ok in self.fork(st, z3.And(i2 >= 0, i2 < n), "index_ok"):
                if ok:
                    s.assume(seq[i2] < s.ctr)
                    out.append((s, V("ref", seq[i2], self.registry.elem_hint(o))))
                else:
                    out.append((s, Raise(self.new_exception(s, "IndexError"))))
            return out
        if o.kind == "ref" and o.py == "dict":
            kr = self.to_ref(st, k)
            out = []
            for s, ok in self.fork(st, z3.Select(st.get("ddom", o.t), kr), "key_in"):
                if ok:
                    out.append((s, V("ref", z3.Select(s.get("dval", o.t), kr))))
                else:
                    out.append((s, Raise(self.new_exception(s, "KeyError"))))
            return out
        h = self.registry.item_hook(self, st, o, k)
        if h is not None:
            return h
        raise Unsupported("subscript of %r" % (o,))

    def load_slice(self, st, o, sl):
        """seq[a:b] with non-negative integer bounds (or none), no step: a fresh list."""
        if sl.step is not None or o.kind != "ref":
            raise Unsupported("slice with a step / of %r" % (o,))
        bounds = [b for b in (sl.lower, sl.upper) if b is not None]

        def build(s, vs):
            seq = s.get("list", o.t)
            n = z3.Length(seq)
            it = iter(vs)
            lo = self.to_int(s, next(it)) if sl.lower is not None else z3.IntVal(0)
            hi = self.to_int(s, next(it)) if sl.upper is not None else n
            k = self.ordinal("slice")
            self.oblige(s, "slice#%d.bounds_are_not_negative" % k, z3.And(lo >= 0, hi >= 0), kind="callsite")
            hi_t = z3.If(n < hi, n, hi)
            lo_t = z3.If(n < lo, n, lo)
            return [(s, self.new_list(s, z3.SubSeq(seq, lo_t, z3.If(hi_t - lo_t < 0, 0, hi_t - lo_t))))]
        return self.bind(self.eval_list(st, bounds), build)

    # -- displays ----------------------------------------------------------------------------------------
    def e_List(self, st, node):
        def f(s, vs):
            seq = z3.Empty(SeqI)
            for v in vs:
                seq = z3.Concat(seq, z3.Unit(self.to_ref(s, v)))
            return [(s, self.new_list(s, seq))]
        return self.bind(self.eval_list(st, node.elts), f)

    def e_Tuple(self, st, node):
        return self.bind(self.eval_list(st, node.elts), lambda s, vs: [(s, V("static", None, tuple(vs)))])

    def e_Dict(self, st, node):
        def f(s, vs):
            d = self.new_dict(s)
            n = len(node.keys)
            for k, v in zip(vs[:n], vs[n:]):
                self.dict_store(s, d.t, self.to_ref(s, k), self.to_ref(s, v))
            return [(s, d)]
        return self.bind(self.eval_list(st, list(node.keys) + list(node.values)), f)

    def e_Set(self, st, node):
        def f(s, vs):
            r = self.new_set(s)
            mem = s.get("set", r.t)
            for v in vs:
                mem = z3.Store(mem, v.t if v.kind == "int" else self.to_ref(s, v), z3.BoolVal(True))
            s.put("set", r.t, mem)
            return [(s, r)]
        return self.bind(self.eval_list(st, node.elts), f)

    # -- operators ---------------------------------------------------------------------------------------
    def e_UnaryOp(self, st, node):
        if isinstance(node.op, ast.Not):
            def f(s, v):
                return [(s2, b if isinstance(b, Raise) else vbool(z3.Not(b))) for s2, b in self.truth(s, v)]
            return self.bind(self.eval(st, node.operand), f)
        def g(s, v):
            if isinstance(node.op, ast.USub) and v.kind == "int":
                return [(s, vint(-v.t))]
            h = self.registry.unop_hook(self, s, node, v)
            if h is not None:
                return h
            raise Unsupported("unary %s on %r" % (type(node.op).__name__, v))
        return self.bind(self.eval(st, node.operand), g)

    def e_BoolOp(self, st, node):
        is_and = isinstance(node.op, ast.And)

        def go(s, idx):
            out = []
            for s1, v in self.eval(s, node.values[idx]):
                if isinstance(v, Raise) or idx == len(node.values) - 1:
                    out.append((s1, v))
                    continue
                for s2, b in self.truth(s1, v, "boolop"):
                    if isinstance(b, Raise):
                        out.append((s2, b))
                        continue
                    for s3, side in self.fork(s2, b):
                        if side == is_and:
                            out.extend(go(s3, idx + 1))
                        else:
                            out.append((s3, v))
            return out
        return go(st, 0)

    def e_IfExp(self, st, node):
        out = []
        for s1, v in self.eval(st, node.test):
            if isinstance(v, Raise):
                out.append((s1, v))
                continue
            for s2, b in self.truth(s1, v, "ifexp"):
                if isinstance(b, Raise):
                    out.append((s2, b))
                    continue
                for s3, side in self.fork(s2, b, "ifexp"):
                    out.extend(self.eval(s3, node.body if side else node.orelse))
        return out

    def e_BinOp(self, st, node):
        def f(s, vs):
            a, b = vs
            if isinstance(node.op, (ast.Add, ast.Sub)) and a.kind == "int" and b.kind == "int":
                return [(s, vint(a.t + b.t if isinstance(node.op, ast.Add) else a.t - b.t))]
            if isinstance(node.op, ast.Add) and a.kind == "ref" and a.py == "list":
                return [(s, self.new_list(s, z3.Concat(s.get("list", a.t), s.get("list", b.t))))]
            if isinstance(node.op, ast.Add) and (a.kind == "str" or a.py == "opaque_str"):
                return [(s, self.opaque_str(s))]
            if isinstance(node.op, ast.BitOr) and a.kind == "ref" and b.kind == "ref" and a.py == "set" and b.py == "set":
                x = z3.Int("x!un")
                return [(s, self.new_set(s, z3.Lambda([x], z3.Or(z3.Select(s.get("set", a.t), x), z3.Select(s.get("set", b.t), x)))))]
            h = self.registry.binop_hook(self, s, node, a, b)
            if h is not None:
                return h
            raise Unsupported("binop %s on %r, %r" % (type(node.op).__name__, a, b))
        return self.bind(self.eval_list(st, [node.left, node.right]), f)

    def e_Compare(self, st, node):
        if len(node.ops) != 1:
            raise Unsupported("comparison chain")
        op = node.ops[0]

        def f(s, vs):
            a, b = vs
            h = self.registry.compare_hook(self, s, op, a, b)
            if h is not None:
                return h
            return [(s, vbool(self.compare(s, op, a, b)))]
        return self.bind(self.eval_list(st, [node.left, node.comparators[0]]), f)

    def compare(self, st, op, a, b):
        if isinstance(op, (ast.Lt, ast.LtE, ast.Gt, ast.GtE)):
            x, y = self.to_int(st, a), self.to_int(st, b)
            return {ast.Lt: x < y, ast.LtE: x <= y, ast.Gt: x > y, ast.GtE: x >= y}[type(op)]
        if isinstance(op, (ast.In, ast.NotIn)):
            r = self.contains(st, b, a)
            return r if isinstance(op, ast.In) else z3.Not(r)
        if a.kind == "int" and b.kind == "int":
            eq = a.t == b.t
        elif a.kind == "bool" and b.kind == "bool":
            eq = a.t == b.t
        elif a.kind == "static" and b.kind == "static" and isinstance(a.py, tuple) and isinstance(b.py, tuple):
            if len(a.py) != len(b.py):
                eq = z3.BoolVal(False)
            else:
                eq = z3.And([self.to_ref(st, x) == self.to_ref(st, y) for x, y in zip(a.py, b.py)] + [z3.BoolVal(True)])
        elif a.kind == "ref" and b.kind == "ref" and a.py == "list" and b.py == "list" and isinstance(op, (ast.Eq, ast.NotEq)):
            eq = st.get("list", a.t) == st.get("list", b.t)  # == on lists of canonical values is element-wise
        else:
            h = self.registry.eq_hook(self, st, a, b)
            eq = h if h is not None else self.to_ref(st, a) == self.to_ref(st, b)
        if isinstance(op, (ast.Eq, ast.Is)):
            return eq
        if isinstance(op, (ast.NotEq, ast.IsNot)):
            return z3.Not(eq)
        raise Unsupported("compare op %s" % type(op).__name__)

    def contains(self, st, container, item):
        x = self.to_ref(st, item) if item.kind != "int" else item.t
        if container.kind == "static" and isinstance(container.py, (tuple, list)):
            return z3.Or([x == self.to_ref(st, e) for e in container.py] + [z3.BoolVal(False)])
        if container.kind != "ref":
            raise Unsupported("membership in %r" % (container,))
        h = container.py
        if h == "dict":
            return z3.Select(st.get("ddom", container.t), x)
        if h == "set":
            return z3.Select(st.get("set", container.t), x)
        if h in ("list", "tuple"):
            return z3.Contains(st.get("list", container.t), z3.Unit(x))
        r = self.registry.contains_hook(self, st, container, item)
        if r is not None:
            return r
        raise Unsupported("membership in %r (no type hint)" % (container,))

    # -- await ---------------------------------------------------------------------------------------------
    def e_Await(self, st, node):
        if isinstance(node.value, ast.Call) and dotted(node.value.func) in self.registry.async_units:
            # awaiting a coroutine of the library itself runs it to completion: its contract already says what happens
            return self.eval(st, node.value)
        return self.bind(self.eval(st, node.value), lambda s, v: self.registry.oracle_await(self, s, v))

"""pyvc.symex -- path-splitting symbolic executor for the Python subset used by icontract (DESIGN.md 3-5).

Part 1: the executor object, feasibility, obligations, truthiness, helpers.
Expressions are in symex_expr.py, statements in symex_stmt.py (mixins).
"""
import ast
import z3

from .base import (
    V, State, Obligation, Unsupported, fresh, vref, vint, vbool, vstr, VNONE, NONE, TRUE, FALSE, I, B, SeqI,
    TY, T_LIST, T_TUPLE, T_DICT, T_SET, T_EXC, T_STR, T_BOOL, T_NONE, T_INT, ISINST, EXC_CLASS, BOXINT, UNBOXINT,
    strref, clsref, objref,
)
from . import solve


class Raise:
    """Result of an expression / outcome of a statement: exception object `exc` (a Ref term) propagates."""

    __slots__ = ("exc",)

    def __init__(self, exc):
        self.exc = exc


def dotted(node):
    if isinstance(node, ast.Name):
        return node.id
    if isinstance(node, ast.Attribute):
        d = dotted(node.value)
        return None if d is None else d + "." + node.attr
    return None


# exception classes known to the model; pairs (sub, super) closed transitively below
_EXC_PARENTS = {
    "BaseException": None, "Exception": "BaseException", "TypeError": "Exception", "ValueError": "Exception",
    "KeyError": "LookupError", "LookupError": "Exception", "IndexError": "LookupError", "AttributeError": "Exception",
    "AssertionError": "Exception", "NotImplementedError": "RuntimeError", "RuntimeError": "Exception",
    "SyntaxError": "Exception", "ViolationError": "AssertionError", "KeyboardInterrupt": "BaseException",
    "CancelledError": "BaseException", "GeneratorExit": "BaseException", "StopIteration": "Exception",
}


def exc_ancestors(name):
    out = []
    while name is not None:
        out.append(name)
        name = _EXC_PARENTS[name]
    return out


class ExBase:
    """State shared by the mixins."""

    def __init__(self, unit_name, spec, registry, fuel=2):
        self.unit_name = unit_name
        self.spec = spec  # the unit's sidecar spec object (loops, local call handlers, ...)
        self.registry = registry  # global call handlers, globals, attribute hints
        self.obls = []
        self.paths = 0
        self.pruned = 0
        self.fuel = fuel
        self.callsite = {}  # ordinal counters for stable obligation names
        self.cover = set()

    # -- obligations ---------------------------------------------------------------------------------
    def ordinal(self, key):
        self.callsite[key] = self.callsite.get(key, 0) + 1
        return self.callsite[key] - 1

    def oblige(self, st, name, goal, kind="ensures", assume=True, meta=None):
        goal = z3.simplify(goal) if z3.is_expr(goal) else z3.BoolVal(bool(goal))
        m = {"path": list(st.path)}
        m.update(meta or {})
        if z3.is_true(goal):
            m["trivial"] = True
            self.obls.append(Obligation("%s/%s" % (self.unit_name, name), [], goal, kind, m))
            return
        self.obls.append(Obligation("%s/%s" % (self.unit_name, name), st.pc, goal, kind, m))
        if assume:
            st.assume(goal)

    def feasible(self, st):
        r = solve.quick_sat(st.pc, self.registry.specfuns, fuel=0)
        if r == "unsat":
            self.pruned += 1
            return False
        return True

    def fork(self, st, cond, label=None):
        """Split on a Bool term; returns [(state, python_bool)] for the feasible sides."""
        cond = z3.simplify(cond)
        if z3.is_true(cond):
            return [(st, True)]
        if z3.is_false(cond):
            return [(st, False)]
        out = []
        for val in (True, False):
            s = st.copy()
            s.assume(cond if val else z3.Not(cond))
            if label:
                s.path.append("%s=%s" % (label, val))
            if self.feasible(s):
                out.append((s, val))
        return out

    # -- conversions -----------------------------------------------------------------------------------
    def to_ref(self, st, v):
        if v.kind in ("ref", "str"):
            return v.t
        if v.kind == "bool":
            return z3.If(v.t, TRUE, FALSE)
        if v.kind == "int":
            r = BOXINT(v.t)
            st.assume(UNBOXINT(r) == v.t, TY(r) == T_INT, r > 2)
            return r
        if v.kind == "static" and v.t is not None:
            return v.t
        if v.kind == "static" and isinstance(v.py, tuple):
            # a tuple display stored into the heap: a fresh tuple object holding the elements
            seq = z3.Empty(SeqI)
            for x in v.py:
                seq = z3.Concat(seq, z3.Unit(self.to_ref(st, x)))
            return self.new_list(st, seq, ty=T_TUPLE).t
        raise Unsupported("cannot box value %r" % (v,))

    def to_int(self, st, v):
        if v.kind == "int":
            return v.t
        if v.kind == "ref":
            return UNBOXINT(v.t)
        raise Unsupported("not an int: %r" % (v,))

    def truth(self, st, v, label="truth"):
        """Truthiness: returns [(state, Bool term | Raise)]. A user object's __bool__ is an oracle (event Truth)."""
        if v.kind == "bool":
            return [(st, v.t)]
        if v.kind == "int":
            return [(st, v.t != 0)]
        if v.kind == "str":
            return [(st, z3.BoolVal(len(v.py) > 0))]
        if v.kind == "static":
            if isinstance(v.py, (tuple, list)):
                return [(st, z3.BoolVal(len(v.py) > 0))]
            return [(st, z3.BoolVal(True))]
        hint = v.py
        t = v.t
        th = getattr(self.spec, "truth_hook", None)
        if th is not None and hint not in ("list", "tuple", "dict", "bool", "opt_truthy", "func", "class", "opt_list"):
            r = th(self, st, v, label)
            if r is not None:
                return r
        if hint in ("list", "tuple"):
            return [(st, z3.Length(st.get("list", t)) > 0)]
        if hint == "dict":
            return [(st, z3.Length(st.get("dord", t)) > 0)]
        if hint == "bool":
            return [(st, t == TRUE)]
        if hint in ("opt_truthy", "func", "class"):  # None or an object known to be truthy
            return [(st, t != NONE)]
        if hint == "opt_list":
            return [(st, z3.And(t != NONE, z3.Length(st.get("list", t)) > 0))]
        # unknown object: None / True / False are exact, anything else asks the user's __bool__/__len__
        out = []
        for s, isnone in self.fork(st, t == NONE):
            if isnone:
                out.append((s, z3.BoolVal(False)))
                continue
            for s2, isb in self.fork(s, z3.Or(t == TRUE, t == FALSE)):
                if isb:
                    out.append((s2, t == TRUE))
                else:
                    out.extend(self.registry.oracle_truth(self, s2, t, label))
        return out

    # -- exceptions ------------------------------------------------------------------------------------
    def new_exception(self, st, clsname, cause=None):
        e = st.alloc(T_EXC, "exc_" + clsname)
        st.assume(EXC_CLASS(e) == clsref(clsname))
        anc = set(exc_ancestors(clsname))
        for k in _EXC_PARENTS:
            st.assume(ISINST(e, clsref(k)) == z3.BoolVal(k in anc))
        st.put("attr:__cause__", e, cause if cause is not None else NONE)
        return e

    def user_exception_facts(self, st, e):
        """An exception raised by user code: any class; only the hierarchy implications are known."""
        st.assume(e > 2, ISINST(e, clsref("BaseException")))
        for k, p in _EXC_PARENTS.items():
            if p is not None:
                st.assume(z3.Implies(ISINST(e, clsref(k)), ISINST(e, clsref(p))))

    # -- containers ------------------------------------------------------------------------------------
    def new_list(self, st, seq, ty=T_LIST):
        r = st.alloc(ty, "lst")
        st.put("list", r, seq)
        return V("ref", r, "list" if ty is T_LIST else "tuple")

    def new_dict(self, st, dom=None, val=None, order=None):
        r = st.alloc(T_DICT, "dct")
        st.put("ddom", r, dom if dom is not None else z3.K(I, z3.BoolVal(False)))
        st.put("dval", r, val if val is not None else z3.K(I, NONE))
        st.put("dord", r, order if order is not None else z3.Empty(SeqI))
        return V("ref", r, "dict")

    def new_set(self, st, mem=None):
        r = st.alloc(T_SET, "set")
        st.put("set", r, mem if mem is not None else z3.K(I, z3.BoolVal(False)))
        return V("ref", r, "set")

    def dict_store(self, st, d, k, v):
        dom = st.get("ddom", d)
        order = st.get("dord", d)
        st.put("dord", d, z3.If(z3.Select(dom, k), order, z3.Concat(order, z3.Unit(k))))
        st.put("ddom", d, z3.Store(dom, k, z3.BoolVal(True)))
        st.put("dval", d, z3.Store(st.get("dval", d), k, v))

    def seq_of(self, st, v):
        """The Seq(Ref) a for-loop / unpacking iterates over, for list/tuple objects and static tuples."""
        if v.kind == "static" and isinstance(v.py, (tuple, list)):
            s = z3.Empty(SeqI)
            for x in v.py:
                s = z3.Concat(s, z3.Unit(self.to_ref(st, x)))
            return s
        if v.kind == "ref":
            return st.get("list", v.t)
        raise Unsupported("not iterable here: %r" % (v,))

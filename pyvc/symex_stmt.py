"""pyvc.symex_stmt -- statements, loops with invariants, try/except/finally (mixin).

Statement outcomes: ("normal",) ("return", V) ("raise", Raise) ("break",) ("continue",).
"""
import ast
import z3

from .base import Marker, V, Unsupported, fresh, vref, vint, vbool, VNONE, NONE, I, B, SeqI, ISINST, field_sort
from .symex import Raise, dotted

NORMAL = ("normal",)


class LoopCtx:
    """What a loop invariant / variant may talk about."""

    def __init__(self, ex, st, entry, i, seq, extra=None, length=None):
        self.ex = ex
        self.st = st
        self.entry = entry
        self.i = i
        self.seq = seq
        self.n = length if length is not None else z3.Length(seq)
        self.extra = extra or {}

    def var(self, name):
        return self.st.vars[name]


class StmtMixin:
    def exec_block(self, st, stmts):
        branches = [(st, NORMAL)]
        for stmt in stmts:
            nxt = []
            for s, o in branches:
                if o is not NORMAL:
                    nxt.append((s, o))
                else:
                    nxt.extend(self.exec(s, stmt))
            branches = nxt
            if not branches:
                break
        return branches

    def exec(self, st, stmt):
        if not hasattr(self, "reached"):
            self.reached = set()
        self.reached.add(id(stmt))  # (a feasible state arrived at this statement: the vacuity guard reads this)
        m = getattr(self, "s_" + type(stmt).__name__, None)
        if m is None:
            raise Unsupported("statement %s at line %s" % (type(stmt).__name__, stmt.lineno))
        return m(st, stmt)

    def _lift(self, branches, f):
        """Expression branches -> statement branches; f(st, V) -> [(st, outcome)]."""
        out = []
        for s, r in branches:
            if isinstance(r, Raise):
                out.append((s, ("raise", r)))
            else:
                out.extend(f(s, r))
        return out

    # -- simple statements ---------------------------------------------------------------------------------
    def s_Pass(self, st, stmt):
        return [(st, NORMAL)]

    def s_Expr(self, st, stmt):
        if isinstance(stmt.value, ast.Constant):
            return [(st, NORMAL)]
        return self._lift(self.eval(st, stmt.value), lambda s, v: [(s, NORMAL)])

    def s_Return(self, st, stmt):
        if stmt.value is None:
            return [(st, ("return", VNONE))]
        return self._lift(self.eval(st, stmt.value), lambda s, v: [(s, ("return", v))])

    def s_Break(self, st, stmt):
        return [(st, ("break",))]

    def s_Continue(self, st, stmt):
        return [(st, ("continue",))]

    def s_Assign(self, st, stmt):
        def f(s, v):
            branches = [(s, NORMAL)]
            for tgt in stmt.targets:
                nxt = []
                for s2, o in branches:
                    nxt.extend(self.assign(s2, tgt, v) if o is NORMAL else [(s2, o)])
                branches = nxt
            return branches
        return self._lift(self.eval(st, stmt.value), f)

    def s_AnnAssign(self, st, stmt):
        if stmt.value is None:
            return [(st, NORMAL)]
        return self._lift(self.eval(st, stmt.value), lambda s, v: self.assign(s, stmt.target, v))

    def assign(self, st, tgt, v):
        if isinstance(tgt, ast.Name):
            st.vars[tgt.id] = v
            return [(st, NORMAL)]
        if isinstance(tgt, ast.Tuple):
            if v.kind == "static" and isinstance(v.py, tuple) and len(v.py) == len(tgt.elts):
                branches = [(st, NORMAL)]
                for t, x in zip(tgt.elts, v.py):
                    nxt = []
                    for s2, o in branches:
                        nxt.extend(self.assign(s2, t, x) if o is NORMAL else [(s2, o)])
                    branches = nxt
                return branches
            if v.kind == "ref":
                # unpacking a tuple object: its elements, in order (the arity is Python's business: a mismatch raises there)
                seq = st.get("list", v.t)
                branches = [(st, NORMAL)]
                for k, t in enumerate(tgt.elts):
                    nxt = []
                    for s2, o in branches:
                        nxt.extend(self.assign(s2, t, V("ref", seq[k])) if o is NORMAL else [(s2, o)])
                    branches = nxt
                return branches
            raise Unsupported("unpacking of %r" % (v,))
        if isinstance(tgt, ast.Attribute):
            return self._lift(self.eval(st, tgt.value), lambda s, o: self._lift(self.store_attr(s, o, tgt.attr, v), lambda s2, _: [(s2, NORMAL)]))
        if isinstance(tgt, ast.Subscript):
            def f(s, vs):
                o, k = vs
                return self._lift(self.store_item(s, o, k, v), lambda s2, _: [(s2, NORMAL)])
            return self._lift(self.eval_list(st, [tgt.value, tgt.slice]), f)
        raise Unsupported("assignment target %s" % type(tgt).__name__)

    def store_attr(self, st, o, attr, v):
        h = self.registry.setattr_hook(self, st, o, attr, v)
        if h is not None:
            return h
        r = self.to_ref(st, o)
        st.put("attr:" + attr, r, self.to_ref(st, v))
        st.put("has:" + attr, r, z3.BoolVal(True))
        return [(st, VNONE)]

    def store_item(self, st, o, k, v):
        if o.kind == "ref" and o.py == "dict":
            self.dict_store(st, o.t, self.to_ref(st, k), self.to_ref(st, v))
            return [(st, VNONE)]
        raise Unsupported("item store into %r" % (o,))

    def s_Raise(self, st, stmt):
        if stmt.exc is None:
            raise Unsupported("bare raise")

        def f(s, v):
            e = self.to_ref(s, v)
            if stmt.cause is None:
                return [(s, ("raise", Raise(e)))]
            def g(s2, c):
                s2.put("attr:__cause__", e, self.to_ref(s2, c))
                return [(s2, ("raise", Raise(e)))]
            return self._lift(self.eval(s2 if False else s, stmt.cause), g)
        return self._lift(self.eval(st, stmt.exc), f)

    def s_Assert(self, st, stmt):
        """An assert is an obligation and then an assumption (DESIGN.md C15): it must never fail."""
        def f(s, v):
            out = []
            for s2, b in self.truth(s, v, "assert"):
                if isinstance(b, Raise):
                    out.append((s2, ("raise", b)))
                    continue
                k = self.ordinal("assert")
                self.oblige(s2, "assert#%d[%s]" % (k, ast.unparse(stmt.test)[:60]), b, kind="assert")
                out.append((s2, NORMAL))
            return out
        return self._lift(self.eval(st, stmt.test), f)

    def s_If(self, st, stmt):
        def f(s, v):
            out = []
            for s2, b in self.truth(s, v, "if"):
                if isinstance(b, Raise):
                    out.append((s2, ("raise", b)))
                    continue
                for s3, side in self.fork(s2, b, "if@%s" % ast.unparse(stmt.test)[:40]):
                    out.extend(self.exec_block(s3, stmt.body if side else stmt.orelse))
            return out
        return self._lift(self.eval(st, stmt.test), f)

    def s_FunctionDef(self, st, stmt):
        st.vars[stmt.name] = self.registry.closure_value(self, st, stmt)
        return [(st, NORMAL)]

    s_AsyncFunctionDef = s_FunctionDef

    # -- try ---------------------------------------------------------------------------------------------
    def s_Try(self, st, stmt):
        out = []
        for s, o in self.exec_block(st, stmt.body):
            if o[0] == "raise":
                out.extend(self._handlers(s, stmt, o[1], 0))
            elif o is NORMAL and stmt.orelse:
                out.extend(self.exec_block(s, stmt.orelse))
            else:
                out.append((s, o))
        if not stmt.finalbody:
            return out
        fin = []
        for s, o in out:
            for s2, o2 in self.exec_block(s, stmt.finalbody):
                fin.append((s2, o if o2 is NORMAL else o2))
        return fin

    def _handlers(self, st, stmt, rz, idx):
        if idx == len(stmt.handlers):
            return [(st, ("raise", rz))]
        h = stmt.handlers[idx]
        out = []
        if h.type is None:
            cond = z3.BoolVal(True)
            branches = [(st, None)]
        else:
            branches = self.eval(st, h.type)
        for s, c in branches:
            if isinstance(c, Raise):
                out.append((s, ("raise", c)))
                continue
            if c is not None:
                classes = c.py if (c.kind == "static" and isinstance(c.py, tuple)) else (c,)
                cond = z3.Or([ISINST(rz.exc, self.to_ref(s, k)) for k in classes])
            for s2, match in self.fork(s, cond, "except@%s" % (ast.unparse(h.type) if h.type is not None else "*")):
                if match:
                    if h.name:
                        s2.vars[h.name] = V("ref", rz.exc, "opt_truthy")
                    out.extend(self.exec_block(s2, h.body))
                else:
                    out.extend(self._handlers(s2, stmt, rz, idx + 1))
        return out

    # -- loops -------------------------------------------------------------------------------------------
    def iter_desc(self, st, it):
        """(primary sequence, number of iterations, element(i) as a V) of an iterable the loops of icontract use."""
        if it.kind == "ref" and it.py == "dict_items":
            seq = st.get("dord", it.t)
            return seq, z3.Length(seq), (lambda ex, s, i, d=it.t, q=seq: V("static", None, (V("ref", q[i], ex.registry.key_hint(it)), V("ref", z3.Select(s.get("dval", d), q[i])))))
        if it.kind == "ref" and it.py == "dict_keys":
            seq = st.get("dord", it.t)
            return seq, z3.Length(seq), None
        if it.kind == "static" and isinstance(it.py, Marker) and it.py.name == "enumerate":
            seq, n, inner = self.iter_desc(st, it.py.payload)
            el = inner or (lambda ex, s, i, q=seq, src=it.py.payload: V("ref", q[i], ex.registry.elem_hint(src)))
            return seq, n, (lambda ex, s, i: V("static", None, (vint(i), el(ex, s, i))))
        if it.kind == "static" and isinstance(it.py, Marker) and it.py.name == "range":
            start, stop, step = it.py.payload
            up = z3.simplify(step).as_long() == 1
            n = z3.If(up, z3.If(stop > start, stop - start, 0), z3.If(start > stop, start - stop, 0))
            return z3.Empty(SeqI), n, (lambda ex, s, i: vint(start + i if up else start - i))
        if it.kind == "static" and isinstance(it.py, Marker) and it.py.name == "zip":
            parts = [self.iter_desc(st, x) for x in it.py.payload]
            n = parts[0][1]
            for p in parts[1:]:
                n = z3.If(p[1] < n, p[1], n)
            els = [(p[2] or (lambda ex, s, i, q=p[0], src=x: V("ref", q[i], ex.registry.elem_hint(src)))) for p, x in zip(parts, it.py.payload)]
            return parts[0][0], n, (lambda ex, s, i: V("static", None, tuple(e(ex, s, i) for e in els)))
        seq = self.seq_of(st, it)
        return seq, z3.Length(seq), None

    def loop_ordinal(self, stmt, key):
        """Ordinal of this `for` among the loops of the unit with the same iterable text, in source order."""
        if not hasattr(self, "_loop_ord"):
            self._loop_ord = {}
            seen = {}
            for n in ast.walk(self.unit_node):
                if isinstance(n, ast.For):
                    kk = ast.unparse(n.iter)
                    self._loop_ord[id(n)] = seen.get(kk, 0)
                    seen[kk] = seen.get(kk, 0) + 1
        return self._loop_ord[id(stmt)]

    def assigned_names(self, stmts):
        names = set()
        for n in ast.walk(ast.Module(body=list(stmts), type_ignores=[])):
            if isinstance(n, ast.Name) and isinstance(n.ctx, ast.Store):
                names.add(n.id)
            elif isinstance(n, ast.ExceptHandler) and n.name:
                names.add(n.name)
        return names

    def s_For(self, st, stmt):
        if stmt.orelse:
            raise Unsupported("for-else")
        key = ast.unparse(stmt.iter)
        k = self.loop_ordinal(stmt, key)
        lspec = getattr(self.spec, "loops", {}).get("%s#%d" % (key, k)) or getattr(self.spec, "loops", {}).get(key)
        if lspec is None and isinstance(stmt.iter, (ast.List, ast.Tuple)) and not any(isinstance(e, ast.Starred) for e in stmt.iter.elts):
            # a display of fixed length: the loop is unrolled over its elements (evaluated once, in order, as Python does)
            out = []
            for s, vs in self.eval_list(st, list(stmt.iter.elts)):
                if isinstance(vs, Raise):
                    out.append((s, ("raise", vs)))
                else:
                    out.extend(self.run_loop(s, stmt, V("static", None, tuple(vs)), None, "%s#%d" % (key, k)))
            return out
        return self._lift(self.eval(st, stmt.iter), lambda s, it: self.run_loop(s, stmt, it, lspec, "%s#%d" % (key, k)))

    def run_loop(self, st, stmt, it, lspec, key):
        # static tuples are unrolled
        if it.kind == "static" and isinstance(it.py, (tuple, list)) and lspec is None:
            branches = [(st, NORMAL)]
            for x in it.py:
                nxt = []
                for s, o in branches:
                    if o is not NORMAL:
                        nxt.append((s, o))
                        continue
                    for s1, o1 in self.assign(s, stmt.target, x):
                        for s2, o2 in self.exec_block(s1, stmt.body):
                            if o2[0] == "continue":
                                o2 = NORMAL
                            nxt.append((s2, o2))
                branches = nxt
            return [(s, NORMAL if o[0] == "break" else o) for s, o in branches]
        if lspec is None:
            raise Unsupported("loop over %s has no invariant in the sidecar spec (key %r)" % (ast.unparse(stmt.iter), key))
        if hasattr(lspec, "source"):
            seq, binder = lspec.source(self, st, it)
            length = z3.Length(seq)
        else:
            seq, length, binder = self.iter_desc(st, it)
        entry = st.copy()
        name = "loop(%s)" % key
        # 1. invariant holds on entry
        ctx0 = LoopCtx(self, st, entry, z3.IntVal(0), seq, length=length)
        for idx, f in enumerate(lspec.inv(ctx0)):
            self.oblige(st, "%s.entry.%d" % (name, idx), f, kind="loop-entry")
        # 2. arbitrary iteration
        modified = sorted(self.assigned_names(stmt.body) | {n.id for n in ast.walk(stmt.target) if isinstance(n, ast.Name)})

        def havoc(s):
            h = s.copy()
            for v in modified:
                if v in s.vars or True:
                    old = s.vars.get(v)
                    hint = lspec.var_hints.get(v) if hasattr(lspec, "var_hints") else None
                    kind = (lspec.var_kinds.get(v) if hasattr(lspec, "var_kinds") else None) or (old.kind if old is not None and old.kind in ("ref", "int", "bool") else "ref")
                    if kind == "int":
                        h.vars[v] = vint(fresh("lv_" + v))
                    elif kind == "bool":
                        h.vars[v] = vbool(fresh("lv_" + v, B))
                    else:
                        h.vars[v] = V("ref", fresh("lv_" + v), hint if hint is not None else (old.py if old is not None and old.kind == "ref" else None))
            for fld, ref in (lspec.modifies(LoopCtx(self, s, entry, None, seq, length=length)) if hasattr(lspec, "modifies") else []):
                if callable(ref):
                    old = h.field(fld)
                    new = fresh("lmodset_" + fld.replace(":", "_"), field_sort(fld))
                    r = z3.Int("r!lms")
                    h.heap[fld] = new
                    h.assume(z3.ForAll([r], z3.Implies(z3.Not(ref(r)), z3.Select(new, r) == z3.Select(old, r))))
                    continue
                rt = ref if z3.is_expr(ref) else ref.t
                h.put(fld, rt, fresh("lh_" + fld.replace(":", "_"), field_sort(fld).range()))
            if getattr(lspec, "trace", True) and s.todo is not None:
                h.todo = fresh("todo", s.todo.sort())
                h.time = fresh("time")
                h.assume(h.time >= s.time)
            for g, sort in getattr(lspec, "ghost_vars", {}).items():  # ghost state the loop updates: arbitrary, constrained by the invariant
                h.ghost[g] = fresh("ghost_" + g, sort)
            nc = fresh("ctr")
            h.assume(nc >= s.ctr)
            h.ctr = nc
            return h

        out = []
        # the arbitrary iteration: index i symbolic -- or, for a loop over a display of known length whose spec asks for it
        # (`concrete_indices`), one iteration per concrete index (the invariant is then stated at numerals: smaller VCs)
        n_conc = z3.simplify(length)
        if getattr(lspec, "concrete_indices", False) and z3.is_int_value(n_conc) and n_conc.as_long() <= 4:
            indices = [z3.IntVal(k_) for k_ in range(n_conc.as_long())]
        else:
            indices = [None]
        for i_fixed in indices:
          it_st = havoc(st)
          i = fresh("i") if i_fixed is None else i_fixed
          if i_fixed is None:
              it_st.assume(i >= 0, i < length)
          ctx = LoopCtx(self, it_st, entry, i, seq, length=length)
          it_st.assume(*lspec.inv(ctx))
          it_st.path.append("%s:iter%s" % (name, "" if i_fixed is None else "[%d]" % i_fixed.as_long()))
          it_st.ghost["i:" + key] = i
          if self.feasible(it_st):
              elem = binder(self, it_st, i) if binder else V("ref", seq[i], self.registry.elem_hint(it))
              for s1, o1 in self.assign(it_st, stmt.target, elem):
                  for s2, o2 in self.exec_block(s1, stmt.body):
                      if o2 is NORMAL or o2[0] == "continue":
                          c2 = LoopCtx(self, s2, entry, i + 1, seq, length=length)
                          for idx, f in enumerate(lspec.inv(c2)):
                              self.oblige(s2, "%s.preserve.%d" % (name, idx), f, kind="loop-preserve")
                          self.cover.add(name + ".iter")
                      elif o2[0] == "break":
                          s2.path.append("%s:break" % name)
                          out.append((s2, NORMAL))
                      else:
                          out.append((s2, o2))
        # 3. exit
        ex_st = havoc(st)
        for v in modified:
            # a name first bound inside the loop is unbound after zero iterations: reading it afterwards is Python's
            # UnboundLocalError, which no unit under contract relies on -- such a read makes the unit undecided
            if v not in st.vars and v in ex_st.vars:
                del ex_st.vars[v]
        ctxe = LoopCtx(self, ex_st, entry, length, seq, length=length)
        ex_st.assume(*lspec.inv(ctxe))
        ex_st.path.append("%s:exit" % name)
        ex_st.ghost["i:" + key] = length
        if self.feasible(ex_st):
            if hasattr(lspec, "at_exit"):  # lemmas about the finished loop (obligations, then available downstream)
                lspec.at_exit(self, ex_st, ctxe)
            out.append((ex_st, NORMAL))
        return out

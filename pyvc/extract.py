"""pyvc.extract -- locate units in /repo's working tree (re-read on every run) and normalise them.

A unit is addressed by module file, dotted qualified name and, for duplicated nested defs, a selector:
  "_checkers.py::decorate_with_checker/wrapper[async]"  -- the `async def wrapper` nested in the function
  "_decorators.py::require.__call__"                    -- method of a class
What extraction drops (recorded in the evidence): docstrings, annotations, `cast(T, e)` -> e,
`if sys.version_info ...` arms that are dead on the running interpreter (3.12 semantics are assumed: the arm is
chosen by evaluating the constant test against (3, 12)).
"""
import ast
import hashlib
import os

REPO = os.environ.get("PYVC_REPO", "/repo")
ASSUMED_VERSION = (3, 12)

_cache = {}


def module_ast(relpath):
    path = os.path.join(REPO, "icontract", relpath)
    with open(path, "r", encoding="utf-8") as f:
        src = f.read()
    key = (path, hashlib.sha256(src.encode()).hexdigest())
    if key not in _cache:
        _cache[key] = ast.parse(src, filename=path)
    return _cache[key], src


class _Normalise(ast.NodeTransformer):
    def __init__(self):
        self.dropped = []

    def _strip_doc(self, node):
        if node.body and isinstance(node.body[0], ast.Expr) and isinstance(node.body[0].value, ast.Constant) and isinstance(node.body[0].value.value, str):
            self.dropped.append("docstring of %s" % getattr(node, "name", "?"))
            node.body = node.body[1:] or [ast.Pass()]

    def visit_FunctionDef(self, node):
        self._strip_doc(node)
        node.returns = None
        for a in node.args.args + node.args.kwonlyargs + node.args.posonlyargs + [x for x in (node.args.vararg, node.args.kwarg) if x]:
            a.annotation = None
        self.generic_visit(node)
        return node

    visit_AsyncFunctionDef = visit_FunctionDef

    def visit_ClassDef(self, node):
        self._strip_doc(node)
        self.generic_visit(node)
        return node

    def visit_Call(self, node):
        self.generic_visit(node)
        if isinstance(node.func, ast.Name) and node.func.id == "cast" and len(node.args) == 2:
            self.dropped.append("cast(...)")
            return node.args[1]
        return node

    def visit_AnnAssign(self, node):
        self.generic_visit(node)
        if node.value is None:
            return ast.Pass()
        return ast.copy_location(ast.Assign(targets=[node.target], value=node.value), node)

    def visit_If(self, node):
        t = node.test
        if (isinstance(t, ast.Compare) and isinstance(t.left, ast.Attribute) and ast.unparse(t.left) == "sys.version_info"
                and len(t.ops) == 1 and isinstance(t.comparators[0], ast.Tuple)):
            bound = tuple(e.value for e in t.comparators[0].elts)
            op = t.ops[0]
            val = {ast.Lt: ASSUMED_VERSION < bound, ast.GtE: ASSUMED_VERSION >= bound, ast.Gt: ASSUMED_VERSION > bound,
                   ast.LtE: ASSUMED_VERSION <= bound}[type(op)]
            dead = node.orelse if val else node.body
            self.dropped.append("dead version arm `%s` (%d statements)" % (ast.unparse(t), len(dead)))
            live = node.body if val else node.orelse
            out = []
            for s in live:
                r = self.visit(s)
                if isinstance(r, list):
                    out.extend(r)
                elif r is not None:
                    out.append(r)
            return out or [ast.Pass()]
        self.generic_visit(node)
        return node


def _children_defs(body):
    """All function/class definitions reachable through if/else/try nesting (not through other defs)."""
    out = []
    for s in body:
        if isinstance(s, (ast.FunctionDef, ast.AsyncFunctionDef, ast.ClassDef)):
            out.append(s)
        elif isinstance(s, ast.If):
            out.extend(_children_defs(s.body))
            out.extend(_children_defs(s.orelse))
        elif isinstance(s, ast.Try):
            out.extend(_children_defs(s.body))
        elif isinstance(s, (ast.For, ast.While)):
            out.extend(_children_defs(s.body))
    return out


def _select(cands, sel, where):
    if sel is None:
        if len(cands) != 1:
            raise LookupError("%s: %d candidates, selector needed" % (where, len(cands)))
        return cands[0]
    if sel == "async":
        c = [d for d in cands if isinstance(d, ast.AsyncFunctionDef)]
    elif sel == "sync":
        c = [d for d in cands if isinstance(d, ast.FunctionDef)]
    elif sel.isdigit():
        c = [cands[int(sel)]] if int(sel) < len(cands) else []
    else:
        raise LookupError("unknown selector %r" % sel)
    if len(c) != 1:
        raise LookupError("%s[%s]: %d candidates" % (where, sel, len(c)))
    return c[0]


class Unit:
    def __init__(self, addr, node, dropped, src_sha, enclosing):
        self.addr = addr
        self.node = node
        self.dropped = dropped
        self.sha = hashlib.sha256(ast.dump(node).encode()).hexdigest()
        self.module_sha = src_sha
        self.enclosing = enclosing  # list of enclosing def nodes (for closure facts)

    def describe(self):
        return {"unit": self.addr, "ast_sha256": self.sha, "first_line": self.node.lineno, "dropped": sorted(set(self.dropped))}


def get_unit(addr):
    """addr = 'file.py::a.b/c[sel]/d' ; '.' descends into classes, '/' into nested defs."""
    relpath, qual = addr.split("::")
    tree, src = module_ast(relpath)
    tree = ast.parse(src)  # private copy: normalisation mutates
    norm = _Normalise()
    tree = norm.visit(tree)
    ast.fix_missing_locations(tree)
    body = tree.body
    enclosing = []
    node = None
    parts = qual.replace(".", "/").split("/")
    # version-dead arms at class level have already been flattened by visit_If
    for part in parts:
        sel = None
        name = part
        if "[" in part:
            name, sel = part[:-1].split("[")
        cands = [d for d in _children_defs(body) if d.name == name]
        if not cands:
            raise LookupError("unit %s: no definition named %s" % (addr, name))
        node = _select(cands, sel, "%s:%s" % (addr, name))
        enclosing.append(node)
        body = node.body
    return Unit(addr, node, norm.dropped, hashlib.sha256(src.encode()).hexdigest(), enclosing[:-1])

"""pyvc.registry -- events, oracles for user code, global call handlers and hooks."""
import ast
import z3

from .base import (
    V, Unsupported, fresh, vref, vint, vbool, vstr, VNONE, NONE, TRUE, FALSE, I, B, SeqI,
    TY, T_CORO, ISINST, clsref, strref, objref, Marker,
)
from .symex import Raise
from .solve import SpecFun

# -- events ------------------------------------------------------------------------------------------------
Ev = z3.Datatype("Ev")
Ev.declare("ev", ("kind", I), ("a", I), ("b", I))
Ev = Ev.create()
SeqEv = z3.SeqSort(Ev)

EVENT_KINDS = [
    "Cond", "Truth", "Cap", "Body", "ErrF", "ErrC", "Msg", "Await", "PreBlock", "CapBlock", "PostBlock", "Viol",
    "Inv", "Reg", "Op", "Visit", "ReprCond", "CollapseInv", "MemberFn", "MemberProp", "AddInvChecks", "TypeNew", "DbcNamespace", "ReprV", "Recompute", "Inspect", "ReprBlock",
]
EK = {k: i + 1 for i, k in enumerate(EVENT_KINDS)}


def event(kind, a=NONE, b=NONE):
    return Ev.ev(z3.IntVal(EK[kind]), a, b)


def unit(e):
    return z3.Unit(e)


EMPTY = z3.Empty(SeqEv)


def seq(*events):
    if not events:
        return EMPTY
    if len(events) == 1:
        return z3.Unit(events[0])
    return z3.Concat(*[z3.Unit(e) for e in events])


def cat(*seqs):
    seqs = [s for s in seqs]
    if len(seqs) == 1:
        return seqs[0]
    return z3.Concat(*seqs)


# oracle responses, indexed by the ghost clock: user code may answer anything at any time
RESP_RAISES = z3.Function("resp_raises", I, B)
RESP_VAL = z3.Function("resp_val", I, I)
RESP_BOOL = z3.Function("resp_bool", I, B)
IS_CORO = z3.Function("is_coroutine", I, B)
IS_COROFN = z3.Function("is_coroutinefunction", I, B)


class Registry:
    def __init__(self):
        self.calls = {}
        self.methods = {}
        self.pure_calls = {}
        self.attr_hints = {}
        self.specfuns = {}
        self.globals = {}
        self.elem_hints = {}
        self.assumptions = set()
        self.externals = {}
        self.async_units = set()
        self.heap_invariants = []  # (name, fn(state) -> Bool): class invariants assumed of the initial heap of every unit

    # ---- spec functions ------------------------------------------------------------------------------
    def specfun(self, name, sorts, defn=None):
        f = SpecFun(name, sorts, defn)
        self.specfuns[name] = f
        return f

    def external(self, name, source):
        self.externals[name] = source

    # ---- trace -----------------------------------------------------------------------------------------
    def emit(self, ex, st, kind, a=NONE, b=NONE):
        ev = event(kind, a, b)
        k = ex.ordinal("emit:" + kind)
        if st.todo is None:
            ex.oblige(st, "emit.%s#%d.unexpected" % (kind, k), z3.BoolVal(False), kind="trace")
            return
        ex.oblige(st, "emit.%s#%d.matches_spec" % (kind, k), z3.And(z3.Length(st.todo) > 0, st.todo[0] == ev), kind="trace",
                  meta={"event": kind})
        rest = fresh("todo", SeqEv)
        st.assume(st.todo == z3.Concat(z3.Unit(ev), rest))
        st.todo = rest

    def oracle(self, ex, st, kind, a=NONE, b=NONE, hint=None):
        """A call into user code: event, then either a value or any exception. Heap untouched (A-FRAME)."""
        self.emit(ex, st, kind, a, b)
        t = st.time
        st.time = t + 1
        out = []
        for s, raises in ex.fork(st, RESP_RAISES(t), "%s@t raises" % kind):
            v = RESP_VAL(t)
            if raises:
                ex.user_exception_facts(s, v)
                out.append((s, Raise(v)))
            else:
                out.append((s, V("ref", v, hint)))
        self.assumptions.add("A-FRAME: user callables do not mutate library-owned containers")
        return out

    def oracle_truth(self, ex, st, t_obj, label):
        self.emit(ex, st, "Truth", t_obj)
        t = st.time
        st.time = t + 1
        out = []
        for s, raises in ex.fork(st, RESP_RAISES(t), "Truth raises"):
            if raises:
                ex.user_exception_facts(s, RESP_VAL(t))
                out.append((s, Raise(RESP_VAL(t))))
            else:
                out.append((s, RESP_BOOL(t)))
        return out

    def oracle_await(self, ex, st, v):
        return self.oracle(ex, st, "Await", ex.to_ref(st, v))

    # ---- hooks (default: no special treatment) -----------------------------------------------------------
    def global_value(self, ex, st, name):
        if name.startswith("ast.") and name not in self.globals:
            return V("ref", clsref(name), "class")  # node classes of the ast module are interned class tags
        g = self.globals.get(name)
        if callable(g):
            return g(ex, st)
        return g

    def attr_hook(self, ex, st, o, attr):
        return None

    def pure_attr_hook(self, ex, st, o, attr):
        return None

    def setattr_hook(self, ex, st, o, attr, v):
        return None

    def hasattr_hook(self, ex, st, o, attr):
        return None

    def getattr_default_hook(self, ex, st, o, attr, default):
        return None

    def binop_hook(self, ex, st, node, a, b):
        return None

    def eq_hook(self, ex, st, a, b):
        return None

    def item_hook(self, ex, st, o, k):
        return None

    def compare_hook(self, ex, st, op, a, b):
        return None

    def unop_hook(self, ex, st, node, v):
        return None

    def contains_hook(self, ex, st, container, item):
        return None

    def call_value(self, ex, st, node, fv, args, kwargs):
        raise Unsupported("call of a local value %r (line %s)" % (fv, node.lineno))

    def closure_value(self, ex, st, stmt):
        return V("static", None, Marker("closure", stmt))

    def comp_source_hook(self, ex, st, target, src, j):
        return None

    def at_exit(self, ex, st):
        """Called on every exit path of a unit before its postconditions are generated."""

    def elem_hint(self, container):
        if container is None:
            return None
        return self.elem_hints.get(container.py if container.kind == "ref" else None)

    def key_hint(self, container):
        return None

    def str_pred(self, name, recv, arg):
        f = z3.Function("str_" + name, I, I, B)
        return f(recv, arg.t)

"""pyvc.engine -- function contracts (FnSpec), modular call-site application, verification of a unit's body."""
import ast
import time
import z3

from .base import V, State, Obligation, Unsupported, fresh, vref, vint, vbool, vstr, VNONE, NONE, I, B, SeqI, TY, field_sort
from .symex import ExBase, Raise, dotted
from .symex_expr import ExprMixin
from .symex_call import CallMixin
from .symex_stmt import StmtMixin, NORMAL
from . import extract, solve
from .registry import EMPTY


class Executor(ExBase, ExprMixin, CallMixin, StmtMixin):
    def e_Call(self, st, node):
        text = dotted(node.func)
        if text in ("any", "all") and len(node.args) == 1 and isinstance(node.args[0], ast.GeneratorExp) and text not in st.vars:
            return self.quantified(st, node.args[0], text == "all")
        return CallMixin.e_Call(self, st, node)


class Ctx:
    """What requires/ensures see: pre-state, post-state, arguments by parameter name."""

    def __init__(self, ex, pre, post, a, ghost=None):
        self.ex = ex
        self.pre = pre
        self.post = post
        self.a = a
        self.ghost = ghost or {}

    def ref(self, name):
        return self.a[name].t


class FnSpec:
    """Contract of a repository function. Subclasses override what they need (everything defaults to 'pure, total')."""

    addr = None  # extraction address
    hints = {}  # parameter name -> static type hint
    kinds = {}  # parameter name -> 'ref' | 'int' | 'bool'
    free = {}  # free (closure / module) variables of a nested unit -> hint
    ret_fresh = None  # type tag if the result is a freshly allocated object
    ret_fields = ()  # heap fields of the fresh result that the ensures constrains
    ret_hint = None
    ret_kind = "ref"
    may_raise = True
    loops = {}
    calls = {}
    methods = {}
    comps = {}
    trace = False  # does the unit call user code?
    # vacuity guard: statements no feasible path reaches must match one of these (defensive branches the contracts prove dead);
    # any other unreached statement makes the unit undecided
    expected_unreached = ("raise NotImplementedError",)

    def name(self):
        return self.addr.split("::")[1]

    def requires(self, c):
        return []

    def init_trace(self, c):
        return EMPTY

    def ensures_ret(self, c, v):
        return []

    def ensures_raise(self, c, e):
        return [("never_raises", z3.BoolVal(False))]

    def modifies(self, c):
        return []

    def call_events(self, ex, st, c):
        """Emit this function's block event(s) at a call site and advance the clock."""
        return None

    def setup(self, ex, st, a):
        """Extra facts about the initial state when verifying the body (closure facts, ghost)."""

    def static_checks(self, fnode):
        """Syntactic obligations on the unit's AST: [(name, bool)]."""
        return []


def params_of(fnode):
    a = fnode.args
    names = [x.arg for x in a.posonlyargs + a.args]
    defaults = dict(zip(names[len(names) - len(a.defaults):], a.defaults))
    for x, d in zip(a.kwonlyargs, a.kw_defaults):
        names.append(x.arg)
        if d is not None:
            defaults[x.arg] = d
    return names, defaults, (a.vararg.arg if a.vararg else None), (a.kwarg.arg if a.kwarg else None)


def bind_args(ex, st, spec, fnode, args, kwargs):
    names, defaults, var, kw = params_of(fnode)
    if "*" in kwargs or "**" in kwargs:
        raise Unsupported("star-call of a contracted repo function %s" % spec.addr)
    a = {}
    for n, v in zip(names, args):
        a[n] = v
    for k, v in kwargs.items():
        if k in a or k not in names:
            raise Unsupported("bad keyword %s for %s" % (k, spec.addr))
        a[k] = v
    for n in names:
        if n not in a:
            if n not in defaults:
                raise Unsupported("missing argument %s for %s" % (n, spec.addr))
            (s2, dv), = ex.eval(st, defaults[n])
            a[n] = dv
    # apply the spec's static hints to untyped refs
    for n, v in list(a.items()):
        h = spec.hints.get(n)
        if h and v.kind == "ref" and v.py is None:
            a[n] = V("ref", v.t, h)
    return a


def apply_contract(spec, fnode):
    """The call-site handler for a contracted function: requires -> obligation, events, havoc, ensures -> assumption."""

    def handler(ex, st, node, args, kwargs):
        a = bind_args(ex, st, spec, fnode, args, kwargs)
        k = ex.ordinal("call:" + spec.name())
        tag = "call[%s]#%d" % (spec.name(), k)
        c0 = Ctx(ex, st, st, a)
        for nm, f in spec.requires(c0):
            if nm.startswith("python.") or nm.startswith("datainv."):
                # a type invariant of a built-in Python value (dict insertion order, distinct parameter names of a
                # Signature): true of every such value by construction; assumed, and listed as trusted
                st.assume(f)
                ex.registry.assumptions.add("type invariant " + nm)
                continue
            ex.oblige(st, "%s.requires.%s" % (tag, nm), f, kind="requires")
        pre = st.copy()
        ghost = spec.call_events(ex, st, Ctx(ex, pre, st, a)) or {}
        for m in spec.modifies(Ctx(ex, pre, st, a, ghost)):
            fld, ref = m[0], m[1]
            if callable(ref):  # (field, predicate): every object satisfying the predicate may change
                old = st.field(fld)
                new = fresh("modset_" + fld.replace(":", "_"), field_sort(fld))
                r = z3.Int("r!ms")
                st.heap[fld] = new
                st.assume(z3.ForAll([r], z3.Implies(z3.Not(ref(r)), z3.Select(new, r) == z3.Select(old, r))))
                continue
            nv = fresh("mod_" + fld.replace(":", "_"), field_sort(fld).range())
            if len(m) == 3:  # guarded entry: the object is in the modifies clause only if the guard holds
                nv = z3.If(m[2], nv, st.get(fld, ref))
            st.put(fld, ref, nv)
        out = []
        # normal return
        s = st.copy()
        if spec.ret_kind == "bool":
            r = None
        elif spec.ret_fresh is not None:
            r = s.alloc(spec.ret_fresh, "ret_" + spec.name().split("/")[-1])
            for fld in spec.ret_fields:
                s.put(fld, r, fresh("rf_" + fld.replace(":", "_"), field_sort(fld).range()))
        else:
            # the callee may have allocated (e.g. an error object it returns): the counter moves on, the result exists
            r = fresh("ret_" + spec.name().split("/")[-1])
            nc = fresh("ctr")
            s.assume(nc >= s.ctr, r < nc)
            s.ctr = nc
        rv = V("ref", r, spec.ret_hint) if r is not None else vbool(fresh("retb_" + spec.name().split("/")[-1], B))
        c = Ctx(ex, pre, s, a, ghost)
        s.assume(*[f for _, f in spec.ensures_ret(c, rv)])
        s.path.append("%s:ret" % tag)
        if ex.feasible(s):
            out.append((s, rv))
        # exceptional return
        if spec.may_raise:
            s = st.copy()
            e = fresh("exc_" + spec.name().split("/")[-1])
            nc = fresh("ctr")
            s.assume(e > 2, nc > e, nc >= s.ctr)
            s.ctr = nc
            ex.user_exception_facts(s, e)
            c = Ctx(ex, pre, s, a, ghost)
            s.assume(*[f for _, f in spec.ensures_raise(c, V("ref", e))])
            s.path.append("%s:raise" % tag)
            if ex.feasible(s):
                out.append((s, Raise(e)))
        return out

    return handler


class UnitReport:
    def __init__(self, spec, unit):
        self.spec = spec
        self.unit = unit
        self.obligations = []
        self.results = []
        self.paths = 0
        self.pruned = 0
        self.error = None
        self.symex_s = 0.0
        self.solve_s = 0.0
        self.cover = set()
        self.unreached = []


def initial_state(ex, spec, fnode):
    st = State()
    c0 = fresh("ctr0")
    st.ctr = c0
    st.assume(c0 > 2)
    st.time = fresh("t0")
    st.assume(st.time >= 0)
    names, defaults, var, kw = params_of(fnode)
    a = {}

    def mk(n, hint):
        kind = spec.kinds.get(n, "ref")
        if kind == "int":
            return vint(fresh("p_" + n))
        if kind == "bool":
            return vbool(fresh("p_" + n, B))
        t = fresh("p_" + n)
        st.assume(t < c0)
        st.olds.add(t.get_id())
        return V("ref", t, hint)

    for n in names:
        a[n] = mk(n, spec.hints.get(n))
    if var:
        a[var] = mk(var, "tuple")
    if kw:
        a[kw] = mk(kw, "dict")
    for n, hint in spec.free.items():
        a[n] = mk(n, hint)
    st.vars.update(a)
    return st, a


def verify_unit(spec, registry, fuel=2, timeout_ms=10000, mutate=None, prop=None):
    """Symbolically execute the real body of spec.addr and generate every obligation of its contract."""
    unit = extract.get_unit(spec.addr)
    fnode = unit.node
    if mutate is not None:
        fnode = mutate(fnode)
    rep = UnitReport(spec, unit)
    ex = Executor(spec.name(), spec, registry, fuel=fuel)
    ex.unit_node = fnode
    t0 = time.time()
    try:
        st, a = initial_state(ex, spec, fnode)
        for nm, okv in spec.static_checks(fnode):
            ex.obls.append(Obligation("%s/static.%s" % (ex.unit_name, nm), [], z3.BoolVal(bool(okv)), "static", {"path": ["static"], "trivial": bool(okv)}))
        c = Ctx(ex, st, st, a)
        st.assume(*[f for _, f in spec.requires(c)])
        for nm, inv in registry.heap_invariants:
            st.assume(inv(st))
            registry.assumptions.add("class invariant assumed of the initial heap: " + nm)
        spec.setup(ex, st, a)
        st.todo = spec.init_trace(c)
        if not ex.feasible(st):
            raise Unsupported("vacuous: requires of %s are unsatisfiable" % spec.addr)
        pre = st.copy()
        for s, o in ex.exec_block(st, fnode.body):
            ex.paths += 1
            registry.at_exit(ex, s)
            cc = Ctx(ex, pre, s, a)
            parts = []
            if o is NORMAL or o[0] == "return":
                v = VNONE if o is NORMAL else o[1]
                tag = "exit[return]#%d" % ex.ordinal("exit:ret")
                for nm, f in spec.ensures_ret(cc, v):
                    parts.append(("%s.ensures.%s" % (tag, nm), f, "ensures"))
                ex.cover.add("return")
            elif o[0] == "raise":
                tag = "exit[raise]#%d" % ex.ordinal("exit:raise")
                for nm, f in spec.ensures_raise(cc, V("ref", o[1].exc)):
                    parts.append(("%s.ensures.%s" % (tag, nm), f, "ensures"))
                ex.cover.add("raise")
            else:
                raise Unsupported("%s escapes the function" % o[0])
            if s.todo is not None and not (o[0] == "raise" and getattr(spec, "trace_prefix_on_raise", False)):
                parts.append(("%s.trace_complete" % tag, z3.Length(s.todo) == 0, "trace"))
            # frame: every pre-existing object outside the modifies clause is unchanged
            mods = spec.modifies(cc)
            for fld, arr in sorted(s.heap.items()):
                if fld in pre.heap and arr.eq(pre.heap[fld]):
                    continue
                r = fresh("frame_r")
                excl = [z3.Not(m[1](r)) if callable(m[1]) else (r != m[1]) if len(m) == 2 else z3.Or(z3.Not(m[2]), r != m[1]) for m in mods if m[0] == fld]
                parts.append(("%s.frame.%s" % (tag, fld),
                              z3.Implies(z3.And([r < pre.ctr] + excl), z3.Select(arr, r) == z3.Select(pre.field(fld), r)), "frame"))
            # one VC per exit path (conjunction of its clauses); split again only if it does not discharge
            goals = [z3.simplify(g) for _, g, _ in parts]
            live = [(n, g, k) for (n, _, k), g in zip(parts, goals) if not z3.is_true(g)]
            if live:
                ex.obls.append(Obligation("%s/%s.all" % (ex.unit_name, tag), s.pc, z3.And([g for _, g, _ in live]) if len(live) > 1 else live[0][1],
                                          "exit", {"path": list(s.path), "parts": live, "clauses": len(parts)}))
            else:
                ex.obls.append(Obligation("%s/%s.all" % (ex.unit_name, tag), [], z3.BoolVal(True), "exit",
                                          {"path": list(s.path), "trivial": True, "clauses": len(parts)}))
    except Unsupported as e:
        rep.error = "unsupported: %s" % e
    except (KeyError, AttributeError, IndexError) as e:
        # a sidecar spec refers to a program variable / shape that the current source no longer has: the unit is
        # undecided (exit 2) -- never a verdict
        import traceback
        rep.error = "unsupported: spec anchor does not resolve on the current source (%s: %s) at %s" % (
            type(e).__name__, e, traceback.format_exc().strip().splitlines()[-3].strip()[:120])
    # vacuity guard: statements of the unit (nested closures excluded) that no feasible path reached
    rep.unreached = []
    if rep.error is None:
        reached = getattr(ex, "reached", set())

        def scan(stmts):
            for n in stmts:
                if isinstance(n, (ast.FunctionDef, ast.AsyncFunctionDef, ast.ClassDef)):
                    continue
                if id(n) not in reached:
                    rep.unreached.append("line %d: %s" % (n.lineno, ast.unparse(n).split("\n")[0][:90]))
                    continue  # (what is below an unreached statement is unreached too: report the top one only)
                for f in ("body", "orelse", "finalbody"):
                    scan(getattr(n, f, []) or [])
                for h in getattr(n, "handlers", []) or []:
                    scan(h.body)
        scan(fnode.body)
    rep.symex_s = time.time() - t0
    rep.obligations = ex.obls
    rep.paths = ex.paths
    rep.pruned = ex.pruned
    rep.cover = ex.cover
    t1 = time.time()
    if rep.error is not None:
        # undecided unit: only its syntactic obligations (they do not depend on the symbolic execution) are reported
        ex.obls = [o for o in ex.obls if o.kind == "static"]
        rep.obligations = ex.obls
        rep.results = solve.discharge_all(ex.obls, registry.specfuns, fuel=1, jobs=1)
        rep.solve_s = time.time() - t1
        return rep
    if prop is not None:
        # clauses that exist only because of another property's statement are that property's business
        ex.obls = [o for o in ex.obls if not o.meta.get("props") or prop in o.meta["props"]]
    if rep.error is None:
        rep.results = solve.discharge_all(ex.obls, registry.specfuns, fuel=max(fuel, 2), timeout_ms=timeout_ms)
        # an exit VC that did not discharge is split into its clauses so that the failing clause is named
        obls2, res2, split = [], [], []
        for o, r in zip(ex.obls, rep.results):
            if r["status"] != "proved" and o.meta.get("parts"):
                for n, g, k in o.meta["parts"]:
                    split.append(Obligation("%s/%s" % (ex.unit_name, n), o.hyps, g, k, {"path": o.meta.get("path")}))
            else:
                obls2.append(o)
                res2.append(r)
        if split:
            obls2 += split
            res2 += solve.discharge_all(split, registry.specfuns, fuel=max(fuel, 2), timeout_ms=timeout_ms)
        ex.obls, rep.results = obls2, res2
        rep.obligations = obls2
    rep.solve_s = time.time() - t1
    return rep

"""pyvc.symex_call -- calls, builtins, methods of containers, comprehensions (mixin)."""
import ast
import z3

from .base import (
    V, Unsupported, fresh, vref, vint, vbool, vstr, VNONE, NONE, TRUE, FALSE, I, B, SeqI,
    TY, T_LIST, T_TUPLE, T_DICT, T_SET, T_STR, ISINST, clsref, strref, IDOF, Marker,
)
from .symex import Raise, dotted
from .base import qforall


STR_FORMAT = z3.Function("str_format", I, SeqI, I)  # (template, arguments) -> the formatted string
STR_JOIN = z3.Function("str_join", I, SeqI, I)  # (separator, pieces) -> the joined string
FIDX = z3.Function("ghost_filter_src_index", SeqI, I, I, I)  # (source value, comprehension id, result index) -> source index
RIDX = z3.Function("ghost_filter_res_index", SeqI, I, I, I)  # (source value, comprehension id, source index) -> result index


def comp_id(text):
    from .base import intern
    return intern("comp", text)


def filter_map_axioms(seq, rs, cid, P, f):
    """rs == [f(j) for j in range(len(seq)) if P(j)] (P, f given on source *indices*): an order-preserving bijection
    between the result indices and the source indices that satisfy P."""
    i, i2, j = z3.Int("i!fm"), z3.Int("i2!fm"), z3.Int("j!fm")
    n, m = z3.Length(seq), z3.Length(rs)
    fi = lambda x: FIDX(seq, cid, x)
    ri = lambda x: RIDX(seq, cid, x)
    return [
        m <= n,
        qforall([i], z3.Implies(z3.And(i >= 0, i < m), z3.And(fi(i) >= 0, fi(i) < n, P(fi(i)), rs[i] == f(fi(i)))), patterns=[fi(i)]),
        qforall([i, i2], z3.Implies(z3.And(i >= 0, i < i2, i2 < m), fi(i) < fi(i2)), patterns=[z3.MultiPattern(fi(i), fi(i2))]),
        qforall([j], z3.Implies(z3.And(j >= 0, j < n, P(j)), z3.And(ri(j) >= 0, ri(j) < m, fi(ri(j)) == j)), patterns=[ri(j), seq[j]]),
        # ground instance for the first element (the one `if result:` style tests need)
        z3.Implies(m > 0, z3.And(fi(z3.IntVal(0)) >= 0, fi(z3.IntVal(0)) < n, P(fi(z3.IntVal(0))), rs[0] == f(fi(z3.IntVal(0))))),
    ]


class CallMixin:
    def e_Call(self, st, node):
        text = dotted(node.func)
        if (text is None and isinstance(node.func, ast.Attribute) and isinstance(node.func.value, ast.Call)
                and isinstance(node.func.value.func, ast.Name) and node.func.value.func.id == "super" and not node.func.value.args):
            text = "super()." + node.func.attr
        handler = None
        recv_node = None
        if text is not None:
            root = text.split(".")[0]
            handler = getattr(self.spec, "calls", {}).get(text)
            if handler is None and root not in st.vars:
                handler = self.registry.calls.get(text)
            if handler is None and root not in st.vars and "." not in text:
                handler = getattr(self, "b_" + text, None)
        if handler is None and text is not None and text.startswith("super()."):
            raise Unsupported("call of %s has no handler in the sidecar spec" % text)
        if handler is None and isinstance(node.func, ast.Attribute):
            recv_node = node.func.value
        if handler is None and recv_node is None:
            if isinstance(node.func, ast.Name) and node.func.id in st.vars:
                fv = st.vars[node.func.id]
                handler = lambda ex, s, n, a, k: ex.registry.call_value(ex, s, n, fv, a, k)
            else:
                raise Unsupported("call of %s (line %s)" % (ast.unparse(node.func), node.lineno))

        pos = []
        for a in node.args:
            pos.append(a.value if isinstance(a, ast.Starred) else a)
        kws = [k.value for k in node.keywords]
        pre = [recv_node] if recv_node is not None else []

        def after(s, vs):
            recv = vs[0] if recv_node is not None else None
            vs = vs[len(pre):]
            args = []
            kwargs = {}
            for a, v in zip(node.args, vs[: len(pos)]):
                if isinstance(a, ast.Starred):
                    kwargs["*"] = v
                else:
                    args.append(v)
            for k, v in zip(node.keywords, vs[len(pos):]):
                kwargs["**" if k.arg is None else k.arg] = v
            if recv is not None:
                return self.call_method(s, node, recv, node.func.attr, args, kwargs)
            return handler(self, s, node, args, kwargs)

        return self.bind(self.eval_list(st, pre + pos + kws), after)

    def call_method(self, st, node, recv, name, args, kwargs):
        h = getattr(self.spec, "methods", {}).get(name) or self.registry.methods.get(name)
        if h is not None:
            r = h(self, st, node, recv, args, kwargs)
            if r is not None:
                return r
        m = getattr(self, "m_" + name, None)
        if m is None:
            raise Unsupported("method .%s on %r (line %s)" % (name, recv, node.lineno))
        return m(st, node, recv, args, kwargs)

    # -- builtins ---------------------------------------------------------------------------------------
    def b_len(self, ex, st, node, args, kwargs):
        (o,) = args
        if o.kind == "static":
            return [(st, vint(len(o.py)))]
        if o.py == "dict":
            return [(st, vint(z3.Length(st.get("dord", o.t))))]
        return [(st, vint(z3.Length(st.get("list", o.t))))]

    def b_id(self, ex, st, node, args, kwargs):
        return [(st, vint(IDOF(self.to_ref(st, args[0]))))]

    def b_isinstance(self, ex, st, node, args, kwargs):
        o, c = args
        orf = self.to_ref(st, o)
        classes = list(c.py) if (c.kind == "static" and isinstance(c.py, tuple)) else [c]

        def one(x):
            if x.t is not None and x.t.eq(clsref("list")):
                return TY(orf) == T_LIST  # the type tag of allocated objects is exact
            return ISINST(orf, self.to_ref(st, x))
        res = z3.Or([one(x) for x in classes])
        if not any(x.t.eq(clsref("object")) for x in classes if x.t is not None):
            st.assume(z3.Implies(res, orf != NONE))  # None is an instance of NoneType and object only
        return [(st, vbool(res))]

    def b_hasattr(self, ex, st, node, args, kwargs):
        o, a = args
        r = self.registry.hasattr_hook(self, st, o, a.py if a.kind == "str" else a.t)
        if r is not None:
            return r
        if a.kind != "str":
            raise Unsupported("hasattr with a dynamic name")
        return [(st, vbool(st.get("has:" + a.py, self.to_ref(st, o))))]

    def b_getattr(self, ex, st, node, args, kwargs):
        o, a = args[0], args[1]
        if a.kind != "str":
            r = self.registry.attr_hook(self, st, o, a.t)
            if r is None or len(args) == 3:
                raise Unsupported("getattr with a dynamic name")
            return r
        if len(args) == 3:
            r = self.registry.getattr_default_hook(self, st, o, a.py, args[2])
            if r is not None:
                return r
            out = []
            for s, has in self.fork(st, st.get("has:" + a.py, self.to_ref(st, o)), "has_" + a.py):
                if has:
                    out.extend(self.load_attr(s, o, a.py))
                else:
                    out.append((s, args[2]))
            return out
        return self.load_attr(st, o, a.py)

    def b_setattr(self, ex, st, node, args, kwargs):
        o, a, v = args
        if a.kind != "str":
            r = self.registry.setattr_hook(self, st, o, a.t, v)
            if r is None:
                raise Unsupported("setattr with a dynamic name")
            return r
        return self.store_attr(st, o, a.py, v)

    def b_dict(self, ex, st, node, args, kwargs):
        if args or kwargs:
            raise Unsupported("dict(...) with arguments")
        return [(st, self.new_dict(st))]

    def b_set(self, ex, st, node, args, kwargs):
        if not args:
            return [(st, self.new_set(st))]
        (o,) = args
        if o.kind == "ref" and o.py in ("list", "tuple"):
            seq = st.get("list", o.t)
            k = z3.Int("k!set")
            return [(st, self.new_set(st, z3.Lambda([k], z3.Contains(seq, z3.Unit(k)))))]
        raise Unsupported("set(%r)" % (o,))

    def b_frozenset(self, ex, st, node, args, kwargs):
        return self.b_set(ex, st, node, args, kwargs)

    def b_list(self, ex, st, node, args, kwargs):
        if not args:
            return [(st, self.new_list(st, z3.Empty(SeqI)))]
        (o,) = args
        if o.kind == "ref" and o.py in ("list", "tuple", "dict_keys"):
            src = st.get("dord" if o.py == "dict_keys" else "list", o.t)
            return [(st, self.new_list(st, src))]
        raise Unsupported("list(%r)" % (o,))

    def b_enumerate(self, ex, st, node, args, kwargs):
        return [(st, V("static", None, Marker("enumerate", args[0])))]

    def b_issubclass(self, ex, st, node, args, kwargs):
        f = z3.Function("issubclass", I, I, B)
        return [(st, vbool(f(self.to_ref(st, args[0]), self.to_ref(st, args[1]))))]

    def b_range(self, ex, st, node, args, kwargs):
        ints = [self.to_int(st, a) for a in args]
        if len(ints) == 1:
            ints = [z3.IntVal(0), ints[0], z3.IntVal(1)]
        elif len(ints) == 2:
            ints = ints + [z3.IntVal(1)]
        if not (z3.is_int_value(z3.simplify(ints[2])) and z3.simplify(ints[2]).as_long() in (1, -1)):
            raise Unsupported("range with a step other than 1 / -1")
        return [(st, V("static", None, Marker("range", tuple(ints))))]

    def b_zip(self, ex, st, node, args, kwargs):
        return [(st, V("static", None, Marker("zip", list(args))))]

    def b_callable(self, ex, st, node, args, kwargs):
        f = z3.Function("builtin_callable", I, B)  # a pure predicate of the object
        return [(st, vbool(f(self.to_ref(st, args[0]))))]

    def b_type(self, ex, st, node, args, kwargs):
        return [(st, V("ref", st.get("attr:__class__", self.to_ref(st, args[0])), "class"))]

    def exc_ctor(self, clsname):
        def h(ex, st, node, args, kwargs):
            return [(st, V("ref", self.new_exception(st, clsname), "opt_truthy"))]
        return h

    # -- methods of containers and strings --------------------------------------------------------------------
    def m_format(self, st, node, recv, args, kwargs):
        """str.format: a deterministic function of the template and the arguments (formatting a user object calls its
        __str__/__repr__/__format__: assumed pure here, listed)."""
        if recv.kind in ("str", "ref") and not kwargs and all(a.kind in ("ref", "str", "int", "bool") for a in args):
            seq = z3.Empty(SeqI)
            for a in args:
                seq = z3.Concat(seq, z3.Unit(self.to_ref(st, a)))
            r = STR_FORMAT(self.to_ref(st, recv), seq)
            st.assume(TY(r) == T_STR, r != NONE)
            return [(st, V("ref", r, "opaque_str"))]
        return [(st, self.opaque_str(st))]

    def m_join(self, st, node, recv, args, kwargs):
        if recv.kind in ("str", "ref") and len(args) == 1 and args[0].kind == "ref" and args[0].py in ("list", "tuple"):
            r = STR_JOIN(self.to_ref(st, recv), st.get("list", args[0].t))
            st.assume(TY(r) == T_STR, r != NONE)
            return [(st, V("ref", r, "opaque_str"))]
        return [(st, self.opaque_str(st))]

    def m_append(self, st, node, recv, args, kwargs):
        seq = st.get("list", recv.t)
        st.put("list", recv.t, z3.Concat(seq, z3.Unit(self.to_ref(st, args[0]))))
        return [(st, VNONE)]

    def m_extend(self, st, node, recv, args, kwargs):
        seq = st.get("list", recv.t)
        st.put("list", recv.t, z3.Concat(seq, self.seq_of(st, args[0])))
        return [(st, VNONE)]

    def m_add(self, st, node, recv, args, kwargs):
        x = args[0].t if args[0].kind == "int" else self.to_ref(st, args[0])
        st.put("set", recv.t, z3.Store(st.get("set", recv.t), x, z3.BoolVal(True)))
        return [(st, VNONE)]

    def m_discard(self, st, node, recv, args, kwargs):
        x = args[0].t if args[0].kind == "int" else self.to_ref(st, args[0])
        st.put("set", recv.t, z3.Store(st.get("set", recv.t), x, z3.BoolVal(False)))
        return [(st, VNONE)]

    def m_index(self, st, node, recv, args, kwargs):
        """list.index(x) on a list without repeated elements (obligation): position of x, ValueError if absent."""
        from .base import LIST_INDEX, distinct_elements
        seq = st.get("list", recv.t)
        x = self.to_ref(st, args[0])
        self.oblige(st, "list.index#%d.list_has_no_repeated_elements" % self.ordinal("lindex"), distinct_elements(seq, recv.t), kind="callsite")
        p = LIST_INDEX(seq, x)
        out = []
        for s, has in self.fork(st, z3.And(p >= 0, p < z3.Length(seq), seq[p] == x), "index_found"):
            if has:
                out.append((s, vint(p)))
            else:
                out.append((s, Raise(self.new_exception(s, "ValueError"))))
        return out

    def m_insert(self, st, node, recv, args, kwargs):
        """list.insert(i, x): x lands before position clamp(i) (negative i counts from the end), as the language reference says."""
        seq = st.get("list", recv.t)
        if args[0].kind != "int":
            raise Unsupported(".insert with a non-integer position")
        i, n = args[0].t, z3.Length(seq)
        pos = z3.If(i >= 0, z3.If(i > n, n, i), z3.If(n + i < 0, z3.IntVal(0), n + i))
        st.put("list", recv.t, z3.Concat(z3.SubSeq(seq, 0, pos), z3.Unit(self.to_ref(st, args[1])), z3.SubSeq(seq, pos, n - pos)))
        return [(st, VNONE)]

    def m_update(self, st, node, recv, args, kwargs):
        """dict.update(other dict): every key of the other dict is set to the other's value (insertion order of new keys: unconstrained)."""
        if recv.py != "dict" or len(args) != 1 or kwargs or args[0].kind != "ref" or args[0].py != "dict":
            raise Unsupported(".update on %r with %r" % (recv, args))
        d, o = recv.t, args[0].t
        dom, val, odom, oval = st.get("ddom", d), st.get("dval", d), st.get("ddom", o), st.get("dval", o)
        ndom, nval = fresh("ddom_after_update", dom.sort()), fresh("dval_after_update", val.sort())
        k = z3.Int("k!upd")
        from .base import qforall
        st.assume(qforall([k], z3.Select(ndom, k) == z3.Or(z3.Select(dom, k), z3.Select(odom, k)), patterns=[z3.Select(ndom, k)]),
                  qforall([k], z3.Select(nval, k) == z3.If(z3.Select(odom, k), z3.Select(oval, k), z3.Select(val, k)), patterns=[z3.Select(nval, k)]))
        st.put("ddom", d, ndom)
        st.put("dval", d, nval)
        st.put("dord", d, fresh("dord_after_update", SeqI))
        return [(st, VNONE)]

    def m_copy(self, st, node, recv, args, kwargs):
        if recv.py == "dict":
            return [(st, self.new_dict(st, dom=st.get("ddom", recv.t), val=st.get("dval", recv.t), order=st.get("dord", recv.t)))]
        raise Unsupported(".copy() of %r" % (recv,))

    def m_pop(self, st, node, recv, args, kwargs):
        """dict.pop(key, default): removes the key if present (the returned value is not used by the callers modelled)."""
        if recv.py == "dict" and len(args) == 2:
            k = self.to_ref(st, args[0])
            d = recv.t
            had = z3.Select(st.get("ddom", d), k)
            old = z3.Select(st.get("dval", d), k)
            st.put("ddom", d, z3.Store(st.get("ddom", d), k, z3.BoolVal(False)))
            st.put("dord", d, fresh("dord_after_pop", SeqI))
            return [(st, V("ref", z3.If(had, old, self.to_ref(st, args[1]))))]
        raise Unsupported(".pop on %r" % (recv,))

    def m_items(self, st, node, recv, args, kwargs):
        return [(st, V("ref", recv.t, "dict_items"))]

    def m_keys(self, st, node, recv, args, kwargs):
        return [(st, V("ref", recv.t, "dict_keys"))]

    def m_values(self, st, node, recv, args, kwargs):
        return [(st, V("ref", recv.t, "dict_values"))]

    def m_startswith(self, st, node, recv, args, kwargs):
        return [(st, vbool(self.registry.str_pred("startswith", self.to_ref(st, recv), args[0])))]

    def m_endswith(self, st, node, recv, args, kwargs):
        return [(st, vbool(self.registry.str_pred("endswith", self.to_ref(st, recv), args[0])))]

    # -- comprehensions -----------------------------------------------------------------------------------------
    def pure(self, st, node, env):
        """Evaluate a side-effect-free expression to a V without forking; `env` binds comprehension targets."""
        if isinstance(node, ast.Name):
            if node.id in env:
                return env[node.id]
            if node.id in st.vars:
                return st.vars[node.id]
            g = self.registry.global_value(self, st, node.id)
            if g is not None:
                return g
            raise Unsupported("pure: unbound %s" % node.id)
        if isinstance(node, ast.Constant):
            return self.e_Constant(st, node)[0][1]
        if isinstance(node, ast.Attribute):
            d = dotted(node)
            if d is not None and d.split(".")[0] not in env and d.split(".")[0] not in st.vars:
                g = self.registry.global_value(self, st, d)
                if g is not None:
                    return g
            o = self.pure(st, node.value, env)
            h = self.registry.pure_attr_hook(self, st, o, node.attr)
            if h is not None:
                return h
            return V("ref", st.get("attr:" + node.attr, o.t), self.registry.attr_hints.get(node.attr))
        if isinstance(node, ast.Compare) and len(node.ops) == 1:
            a = self.pure(st, node.left, env)
            b = self.pure(st, node.comparators[0], env)
            return vbool(self.compare(st, node.ops[0], a, b))
        if isinstance(node, ast.UnaryOp) and isinstance(node.op, ast.Not):
            return vbool(z3.Not(self.pure_truth(st, self.pure(st, node.operand, env))))
        if isinstance(node, ast.BoolOp):
            bs = [self.pure_truth(st, self.pure(st, v, env)) for v in node.values]
            return vbool(z3.And(bs) if isinstance(node.op, ast.And) else z3.Or(bs))
        if isinstance(node, ast.Call):
            h = self.registry.pure_calls.get(dotted(node.func))
            if h is not None:
                return h(self, st, [self.pure(st, a, env) for a in node.args])
        if isinstance(node, ast.Tuple):
            return V("static", None, tuple(self.pure(st, e, env) for e in node.elts))
        raise Unsupported("pure: %s" % ast.unparse(node))

    def pure_truth(self, st, v):
        if v.kind == "bool":
            return v.t
        if v.kind == "int":
            return v.t != 0
        raise Unsupported("pure truth of %r" % (v,))

    def comp_source(self, st, gen):
        """(seq term, binder(elem_ref) -> env) for a single generator over a list/tuple/dict view."""
        (s2, src), = [b for b in self.eval(st, gen.iter)] if True else None
        if isinstance(src, Raise):
            raise Unsupported("raising comprehension source")
        return s2, src

    def e_ListComp(self, st, node):
        h = getattr(self.spec, "comps", {}).get(ast.unparse(node))
        if h is not None:
            return h(self, st, node)
        if len(node.generators) != 1:
            raise Unsupported("nested comprehension")
        gen = node.generators[0]
        branches = self.eval(st, gen.iter)
        out = []
        for s, src in branches:
            if isinstance(src, Raise):
                out.append((s, src))
                continue
            out.append((s, self.list_comp(s, node, gen, src)))
        return out

    def bind_target(self, st, target, src, j):
        """env for comprehension target when the source element has index j."""
        h = self.registry.comp_source_hook(self, st, target, src, j)
        if h is not None:
            return h
        if src.kind == "ref" and src.py == "dict_items":
            k = st.get("dord", src.t)[j]
            v = z3.Select(st.get("dval", src.t), k)
            if not (isinstance(target, ast.Tuple) and len(target.elts) == 2):
                raise Unsupported("items() target")
            return {target.elts[0].id: V("ref", k, self.registry.key_hint(src)), target.elts[1].id: V("ref", v)}, st.get("dord", src.t)
        if src.kind == "ref" and src.py in ("list", "tuple", "dict_keys", "dict_values", "classlist"):
            if src.py == "dict_values":
                seq = st.get("dord", src.t)
                e = z3.Select(st.get("dval", src.t), seq[j])
            else:
                seq = st.get("dord" if src.py == "dict_keys" else "list", src.t)
                e = seq[j]
            if not isinstance(target, ast.Name):
                raise Unsupported("tuple target over a list")
            return {target.id: V("ref", e, self.registry.elem_hint(src))}, seq
        raise Unsupported("comprehension over %r" % (src,))

    def list_comp(self, st, node, gen, src):
        """[elt for target in src if conds] with a pure element and pure conditions.
        Without conditions: pointwise map.  With conditions: the exact filter-map semantics through two ghost index
        functions keyed by the source sequence value and the comprehension text (see filter_map_axioms)."""
        j = z3.Int("j!lc%d" % self.ordinal("lc"))
        env, seq = self.bind_target(st, gen.target, src, j)
        conds = [self.pure_truth(st, self.pure(st, c, env)) for c in gen.ifs]
        P = z3.And(conds) if conds else z3.BoolVal(True)
        elt = self.to_ref(st, self.pure(st, node.elt, env))
        r = self.new_list(st, fresh("lcseq", SeqI))
        rs = st.get("list", r.t)
        n = z3.Length(seq)
        inr = z3.And(j >= 0, j < n)
        if not gen.ifs:
            st.assume(z3.Length(rs) == n, z3.ForAll([j], z3.Implies(inr, rs[j] == elt)))
        else:
            cid = comp_id(ast.unparse(node))
            st.assume(*filter_map_axioms(seq, rs, cid, lambda x: z3.substitute(P, (j, x)), lambda x: z3.substitute(elt, (j, x))))
        r.py = "list"
        return r

    def e_SetComp(self, st, node):
        """{elt for target in src if conds}: membership is exactly 'some source element satisfying the conditions maps to it'."""
        if len(node.generators) != 1:
            raise Unsupported("nested set comprehension")
        gen = node.generators[0]
        out = []
        for s, src in self.eval(st, gen.iter):
            if isinstance(src, Raise):
                out.append((s, src))
                continue
            j = z3.Int("j!sc%d" % self.ordinal("sc"))
            x = z3.Int("x!sc")
            env, seq = self.bind_target(s, gen.target, src, j)
            conds = [self.pure_truth(s, self.pure(s, c, env)) for c in gen.ifs]
            elt = self.to_ref(s, self.pure(s, node.elt, env))
            r = self.new_set(s, fresh("scmem", z3.ArraySort(I, B)))
            mem = s.get("set", r.t)
            s.assume(z3.ForAll([x], z3.Select(mem, x) == z3.Exists([j], z3.And([j >= 0, j < z3.Length(seq)] + conds + [elt == x]))))
            out.append((s, r))
        return out

    def e_DictComp(self, st, node):
        if len(node.generators) != 1:
            raise Unsupported("nested dict comprehension")
        gen = node.generators[0]
        out = []
        for s, src in self.eval(st, gen.iter):
            if isinstance(src, Raise):
                out.append((s, src))
                continue
            if not (src.kind == "ref" and src.py == "dict_items" and isinstance(gen.target, ast.Tuple)):
                raise Unsupported("dict comprehension source")
            kn, vn = gen.target.elts[0].id, gen.target.elts[1].id
            if not (isinstance(node.key, ast.Name) and node.key.id == kn and isinstance(node.value, ast.Name) and node.value.id == vn):
                raise Unsupported("dict comprehension that is not a restriction")
            k = z3.Int("k!dc%d" % self.ordinal("dc"))
            env = {kn: V("ref", k, self.registry.key_hint(src)), vn: V("ref", z3.Select(s.get("dval", src.t), k))}
            conds = [self.pure_truth(s, self.pure(s, c, env)) for c in gen.ifs]
            P = z3.And(conds) if conds else z3.BoolVal(True)
            dom = z3.Lambda([k], z3.And(z3.Select(s.get("ddom", src.t), k), P))
            d = self.new_dict(s, dom=dom, val=s.get("dval", src.t), order=fresh("dcord", SeqI))
            out.append((s, d))
        return out

    def quantified(self, st, node, is_all):
        """any(...) / all(...) over a generator expression with pure element and conditions."""
        g = node
        if len(g.generators) != 1:
            raise Unsupported("nested generator in any/all")
        gen = g.generators[0]
        out = []
        for s, src in self.eval(st, gen.iter):
            if isinstance(src, Raise):
                out.append((s, src))
                continue
            j = z3.Int("j!q%d" % self.ordinal("q"))
            env, seq = self.bind_target(s, gen.target, src, j)
            conds = [self.pure_truth(s, self.pure(s, c, env)) for c in gen.ifs]
            body = self.pure_truth(s, self.pure(s, g.elt, env))
            rng = z3.And([j >= 0, j < z3.Length(seq)] + conds)
            f = z3.ForAll([j], z3.Implies(rng, body)) if is_all else z3.Exists([j], z3.And(rng, body))
            out.append((s, vbool(f)))
        return out

    def b_any(self, ex, st, node, args, kwargs):
        raise Unsupported("any() of a non-generator")

    def e_GeneratorExp(self, st, node):
        return [(st, V("static", None, Marker("genexp", node)))]

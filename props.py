"""Property table: which units (contracts on real functions) and which lemmas decide each property."""
import specs.checkers_pure as pure
import specs.checkers_trace as tr
import specs.binding as binding
import specs.wrapper as wrapper
import specs.violation as violation
import specs.classes as classes
import specs.invariants as invariants
import specs.decorate as decorate
import specs.theorems as theorems
import specs.types as types
import specs.decorators as decorators
import specs.metaclass as metaclass
import specs.recompute as recompute
import specs.represent as represent
import specs.addinv as addinv
import specs.invfactory as invfactory
from specs.lib import REG


def _by_addr(specs):
    return {s.addr.split("::")[1]: s for s in specs}


U = {}
U.update(_by_addr(pure.PURE_SPECS))
U.update(_by_addr(tr.TRACE_SPECS))
U.update(_by_addr([binding.KFC, wrapper.UNPACK] + wrapper.WRAPPERS))
U.update(_by_addr(invariants.INV_SPECS + invariants.INV_WRAPPERS))
U.update(_by_addr([decorate.RKD, decorate.DWC]))
U.update(_by_addr(types.TYPE_SPECS + [decorators.FIND_CHECKER] + decorators.ADD_SPECS + decorators.INIT_SPECS + decorators.CALL_SPECS))
DEFN_CONE = ["Contract.__init__", "Invariant.__init__", "Snapshot.__init__", "find_checker", "add_precondition_to_checker",
             "add_postcondition_to_checker", "add_snapshot_to_checker", "require.__init__", "ensure.__init__", "invariant.__init__",
             "snapshot.__init__", "require.__call__", "ensure.__call__", "snapshot.__call__", "decorate_with_checker", "resolve_kwdefaults"]
DEFN_UNITS = set(DEFN_CONE)
import specs.propmerge as propmerge
U.update(_by_addr(metaclass.META_SPECS))
U.update(_by_addr([addinv.ADDINV]))
U.update(_by_addr(invfactory.INVFACTORY_SPECS))
META_CONE = ["_collapse_invariants", "_collapse_preconditions", "_collapse_postconditions", "_collapse_snapshots", "_decorate_namespace_function", "_decorate_namespace_property",
             "_dbc_decorate_namespace", "DBCMeta.__new__", "invariant.__call__"]
META_UNITS = set(META_CONE)
U.update(_by_addr(recompute.RC_SPECS))
U.update({"collect." + k: v for k, v in _by_addr(represent.COLLECT_SPECS).items()})
U.update(_by_addr([represent.REPRESENTABLE, represent.REPR_VALUES, represent.GENERATE_MESSAGE, represent.INSPECT_DECORATOR]))
RC_CONE = [s.addr.split("::")[1] for s in recompute.RC_SPECS]
COLLECT_CONE = ["collect." + s.addr.split("::")[1] for s in represent.COLLECT_SPECS]
EXPR_UNITS = set(RC_CONE + COLLECT_CONE + ["_representable", "repr_values", "generate_message", "inspect_decorator"])
EXPR_BOUND = ("28 violated lambda conditions (boolean/comparison short-circuits, guards that raise if touched, names shadowing built-ins, star/double-star "
              "arguments, dict unpacking, attributes, subscripts, slices, f-strings, assignment expressions, comprehensions, all(<generator>) incl. nested, "
              "displays, 1000-element values, keyword order permutations, repetition); CPython's own evaluation under an instrumenting AST transformer is the reference")

CHECKER_CONE = [
    "_assert_no_invalid_kwargs", "_assert_resolved_kwargs_valid", "select_condition_kwargs", "select_capture_kwargs",
    "select_error_kwargs", "kwargs_from_call", "not_check", "_unpack_pre_snap_posts", "_create_violation_error",
    "_assert_preconditions", "_assert_preconditions_async", "_capture_old", "_capture_old_async",
    "_assert_postconditions", "_assert_postconditions_async",
    "decorate_with_checker/wrapper[sync]", "decorate_with_checker/wrapper[async]",
]

INV_CONE = [
    "_assert_invariant", "_find_self", "_decorate_with_invariants/wrapper[0]", "_decorate_with_invariants/wrapper[1]",
    "_decorate_with_invariants/wrapper[2]", "_decorate_new_with_invariants/wrapper",
]
INV_UNITS = set(INV_CONE) | {"add_invariant_checks", "_decorate_with_invariants", "_decorate_new_with_invariants"}

# obligations that exist only because of one property's statement carry meta["props"]; everything else in a unit of
# the cone counts for every property listed here
WRAPPERS6 = ["decorate_with_checker/wrapper[sync]", "decorate_with_checker/wrapper[async]", "_decorate_with_invariants/wrapper[0]",
             "_decorate_with_invariants/wrapper[1]", "_decorate_with_invariants/wrapper[2]", "_decorate_new_with_invariants/wrapper"]

PROP_BOUND = dict(unit="_metaclass.py: the merge on real class hierarchies (executed cross-check of _decorate_namespace_function/_property, _dbc_decorate_namespace, DBCMeta.__new__ together)", script="histfam.py",
                  bound="19 definition histories, 5 of them with property getters, 3 binding an inherited member again (two bases with postconditions/snapshots, two bases with preconditions, "
                        "one unconstrained base in either order, a chain with a gap), each compared with the effective contracts computed from the declarations "
                        "and with identity/content snapshots of every earlier class")
PROPS = {}
PROPS_LATE = {
    "C06": dict(units=RC_CONE + COLLECT_CONE + ["repr_values", "_representable"], replay="expr", hints=["short-circuit", "None", "star", "all"],
                bounded=[dict(unit="_recompute.py::Visitor.visit_Call / visit_Dict / visit_FormattedValue / comprehension visitors / _trace_all_with_generator / "
                                   "_translate_all_expression_to_a_module / Visitor.__init__, _represent.py::collect_variable_lookup", script="exprfam.py", bound=EXPR_BOUND)]),
    "C07": dict(units=RC_CONE + ["generate_message", "inspect_decorator", "_create_violation_error", "repr_values"], replay="expr",
                hints=["short-circuit", "guard", "unpacking", "star"],
                bounded=[dict(unit="_recompute.py::Visitor.visit_Call / visit_Dict / comprehension visitors, _represent.py::find_lambda_condition / inspect_lambda_condition",
                              script="exprfam.py", bound=EXPR_BOUND)]),
    "C20": dict(units=["repr_values", "generate_message", "_representable"] + COLLECT_CONE, replay="expr", hints=["sorted", "bounded", "large"]),
    "C03": dict(units=INV_CONE + ["invariant.__call__", "invariant.__init__", "DBCMeta.__new__", "_collapse_invariants", "Invariant.__init__", "add_invariant_checks", "_decorate_with_invariants", "_decorate_new_with_invariants"],
                replay="inv", hints=["member selection", "nested constructor", "check_on", "constructor defined"],
                bounded=[dict(unit="_checkers.py: the composition invariant.__call__ -> add_invariant_checks -> factories -> wrappers on real classes (executed cross-check; "
                                   "_already_decorated_with_invariants / _walk_decorator_stack is a trusted predicate)", script="invfam.py",
                              bound="52 class programs: 1-3 levels of inheritance x check_on orders {CALL, ALL, CALL+SETATTR, SETATTR+CALL, SETATTR} x member kinds "
                                    "{public, _private, dunder, property, classmethod, staticmethod, async, __setattr__} x constructors calling super().__init__ "
                                    "first/last x operation sequences of <= 12 steps; compared with a reference written from the statement")]),
    "C04": dict(units=META_CONE + ["find_checker", "_assert_preconditions", "_assert_preconditions_async", "_assert_postconditions",
                                   "_assert_postconditions_async"], replay="hist", hints=["two bases", "chain", "gap", "weaken", "constructor"], bounded=[PROP_BOUND]),
    "C17": dict(units=META_CONE + ["find_checker", "require.__call__", "ensure.__call__", "snapshot.__call__", "add_precondition_to_checker",
                                   "add_postcondition_to_checker", "add_snapshot_to_checker", "decorate_with_checker"], replay="hist",
                hints=["invariant added", "two bases", "chain"], bounded=[PROP_BOUND]),
    "C18": dict(units=META_CONE + ["find_checker", "_unpack_pre_snap_posts", "decorate_with_checker", "decorate_with_checker/wrapper[sync]",
                                   "decorate_with_checker/wrapper[async]", "_assert_preconditions", "_assert_postconditions", "_capture_old"],
                replay="hist", hints=["chain", "two bases", "invariants along"], bounded=[PROP_BOUND]),
    "C14": dict(units=CHECKER_CONE + INV_CONE + ["decorate_with_checker", "find_checker", "require.__call__", "ensure.__call__", "snapshot.__call__", "invariant.__call__",
                                   "resolve_kwdefaults"], replay="defn", hints=["foreign", "single_checker", "disabled"]),
    "C09": dict(units=CHECKER_CONE + ["_assert_invariant", "Contract.__init__", "Invariant.__init__", "require.__init__", "ensure.__init__",
                                      "invariant.__init__"], replay="call", hints=["falsy_error", "error_argument"]),
    "C15": dict(units=DEFN_CONE + CHECKER_CONE + INV_CONE, theorems=[theorems.verify_SLOW], replay="defn", hints=["disabled"]),
    "C19": dict(units=["decorate_with_checker", "decorate_with_checker/wrapper[sync]", "decorate_with_checker/wrapper[async]",
                       "_assert_no_invalid_kwargs", "_assert_resolved_kwargs_valid", "invariant.__init__", "require.__init__", "ensure.__init__",
                       "Snapshot.__init__", "snapshot.__init__", "snapshot.__call__", "add_snapshot_to_checker", "Contract.__init__", "Invariant.__init__"],
                replay="defn", hints=["reserved", "misuse", "snapshot", "error_argument"]),
    "C12": dict(units=WRAPPERS6, replay="ctx", hints=[], level="other",
                explanation="Deductive verification does not range over schedules. Proved for all six wrappers, for every path: (O1) the "
                "wrapper writes no shared state other than the binding of the context variable (frame over every heap field); (O2') it "
                "never mutates a set object in place (no add/discard on an object that existed before the call; the set field of every "
                "pre-existing object is unchanged) and restores the binding on every exit. Reduction to the property (paper, DESIGN.md "
                "section 8 C12, an unchecked assumption): contextvars gives each thread/task its own binding; a copied context shares "
                "only immutable objects; hence steps of other contexts cannot change what this call reads."),
    "C05": dict(units=["kwargs_from_call", "resolve_kwdefaults", "decorate_with_checker", "select_condition_kwargs", "select_capture_kwargs",
                       "select_error_kwargs", "decorate_with_checker/wrapper[sync]", "decorate_with_checker/wrapper[async]"],
                theorems=[theorems.verify_C05], replay="bind", hints=[]),
    "C01": dict(units=CHECKER_CONE, replay="call", hints=["falsy_error", "groups"]),
    "C02": dict(units=CHECKER_CONE, replay="call", hints=["falsy_error post", "body"]),
    "C08": dict(units=CHECKER_CONE + ["Old.__getattr__"], replay="call", hints=["posts", "fault"]),
    "C11": dict(units=CHECKER_CONE + INV_CONE, replay="call", hints=["reentrant", "fault"]),
    "C13": dict(units=CHECKER_CONE + INV_CONE, replay="call", hints=["async"]),
    "C16": dict(units=CHECKER_CONE + INV_CONE + ["add_precondition_to_checker", "add_postcondition_to_checker", "add_snapshot_to_checker", "require.__call__",
                      "ensure.__call__", "snapshot.__call__", "_collapse_preconditions", "_collapse_postconditions", "_collapse_snapshots", "_collapse_invariants"],
                replay="call", hints=["groups", "posts", "stacked"]),
    "C10": dict(units=["decorate_with_checker/wrapper[sync]", "decorate_with_checker/wrapper[async]"] + INV_CONE, replay="call",
                hints=["body_recursion", "reentrant"]),
}

PROPS.update(PROPS_LATE)

# hints for the replay search from the (normalised) name of a failing obligation
REPLAY_HINTS = [
    ("emit.Truth", ["falsy_error"]),
    ("marker_released", ["body_recursion"]),
    ("marker_held", ["reentrant"]),
    ("suspension_state_restored", ["reentrant", "fault"]),
    ("emit.Body", ["falsy_error", "groups"]),
    ("emit.Cond", ["groups", "posts"]),
    ("emit.Cap", ["posts", "fault"]),
    ("emit.Viol", ["falsy_error", "groups"]),
    ("loop(", ["groups", "posts"]),
    ("the_very_object", ["body"]),
    ("emit.Inv", ["nested constructor", "check_on"]),
]

#!/bin/sh
# usage: confirm_seed.sh <worktree> <seed_dir> : confirm a seeded change (tests pass with it, demo fails with it, passes without)
WT=$1; SD=$2
cd "$WT" || exit 9
git checkout -q -- icontract
PYTHONPATH=$WT /venv/bin/python "$SD/demo.py" >/dev/null 2>&1; echo "demo_clean_exit=$?"
git apply "$SD/patch.diff" || { echo "patch does not apply"; exit 9; }
PYTHONPATH=$WT /venv/bin/python -c "import icontract,sys; sys.exit(0 if icontract.__file__.startswith('$WT') else 1)" || echo "WRONG IMPORT"
PYTHONPATH=$WT /venv/bin/python -m pytest -q -p no:cacheprovider --timeout=900 2>&1 | tail -1
PYTHONPATH=$WT /venv/bin/python "$SD/demo.py" >/dev/null 2>&1; echo "demo_changed_exit=$?"
git checkout -q -- icontract

"""Write meta.json for every seeded change and the table seeded/RESULTS.md (which check catches which change)."""
import json, os
SEEDS = {
 "C01-s1": dict(breaks="C01 (also C04 C17)", needs="multiple inheritance: class C(A, B) with preconditions on A.f and B.f, C overrides f; the fault shows on base A after C is defined", caught_by="C17 C04 (_decorate_namespace_function: frame -- no pre-existing list object is mutated; replay histfam)", status="caught"),
 "C01-s2": dict(breaks="C01 (also C13)", needs="async method with >= 2 precondition groups, call violating the first group and satisfying a later one", caught_by="C01 C13 (_assert_preconditions_async loop obligations; replay 'groups')", status="caught"),
 "C02-s1": dict(breaks="C02 (also C04 C18)", needs="DBC subclass overriding a method with inherited postconditions, own contract decorator and a functools.wraps decorator on top", caught_by="find_checker contract (innermost object with the lists)", status="caught (C18 C14 C17)"),
 "C02-s2": dict(breaks="C02 (also C08)", needs="snapshot present, no postcondition condition names OLD, the violated postcondition's error factory names OLD", caught_by="C02 C08 (wrapper trace: CapBlock expected iff postconditions and snapshots)", status="caught"),
 "C11-s1": dict(breaks="C11", needs="async method of a class with invariants; invariant violated or raising on entry; later probe call on the same instance", caught_by="C11 (async invariant wrapper: suspension_state_restored; replay invfam 'async fault')", status="caught"),
 "C11-s2": dict(breaks="C11", needs="sync function with postcondition and snapshot whose capture raises; probe call afterwards", caught_by="C11 (sync checker wrapper: suspension_state_restored; replay callfam 'fault')", status="caught"),
 "C16-s1": dict(breaks="C16 (also C08 C13)", needs="async function with precondition, snapshot and postcondition; falsy precondition or order trace", caught_by="C16 C08 C13 (async wrapper: emit.CapBlock before PreBlock)", status="caught"),
 "C16-s2": dict(breaks="C16 (also C04)", needs="DBC hierarchy where an override adds its own ensure; two falsy postconditions", caught_by="C04 C16 (_collapse_postconditions: bases_then_own; replay histfam 'chain with posts and snapshots')", status="caught"),
 "C05-s1": dict(breaks="C05", needs="keyword-only parameter with default not passed, call filling every positional slot", caught_by="C05 (kwargs_from_call loop invariants/ensures; replay bindfam)", status="caught"),
 "C05-s2": dict(breaks="C05", needs="async def with positional-only parameter and **kwargs, keyword named like the positional-only parameter", caught_by="C05 (async wrapper: call[kwargs_from_call].resolves_from_the_closure_variables; replay bindfam async rendering) -- obligation added after this seed was first missed", status="caught after strengthening"),
 "C10-s1": dict(breaks="C10", needs="sync function with postcondition and a snapshot whose capture calls the function (directly or mutually)", caught_by="C10 (sync wrapper: marker_held at call[_capture_old]; replay callfam 'reentrant capture' added after first run gave no-failing-input-found)", status="caught"),
 "C10-s2": dict(breaks="C10", needs="async function whose body calls itself with a violating argument", caught_by="C10 (async wrapper: marker_released_for_the_body; replay callfam 'body_recursion')", status="caught"),
 "C12-s1": dict(breaks="C12", needs="context copied after the parent's first checked call + a task/thread suspended inside a contract", caught_by="C12 (static obligation: _IN_PROGRESS is a contextvars.ContextVar with default None; replay ctxfam) -- obligation added after this seed was first missed", status="caught after strengthening"),
 "C03-s1": dict(breaks="C03", needs="base with CALL invariant plus SETATTR-only invariant decorated last; subclass without own invariants overriding a public method", caught_by="C03 (bounded stand-in for add_invariant_checks: invfam 'member selection ...' / 'check_on inheritance')", status="caught (bounded stand-in, not a discharged obligation)"),
 "C04-s1": dict(breaks="C04", needs="multiple inheritance with the unconstrained base listed first and a base with a postcondition second; child overrides", caught_by="C04 (_decorate_namespace_function loop invariants; replay histfam 'two bases unconstrained first...' added after the first run gave no-failing-input-found)", status="caught"),
 "C17-s1": dict(breaks="C17 (also C18)", needs="base with CALL-only invariants, subclass given a SETATTR-only invariant", caught_by="C17 C18 C03 (_collapse_invariants: owns_a_list_whenever_it_has_or_inherits_one; replay histfam)", status="caught"),
 "C15-s1": dict(breaks="C15", needs="ICONTRACT_SLOW set to the empty string in a non-optimised interpreter", caught_by="C15 (symbolic evaluation of the SLOW statement; replay defnfam SLOW_follows_the_environment) -- first run missed it: an unsupported expression in the theorem was not reported; fixed", status="caught after strengthening"),
 "C19-s1": dict(breaks="C19 (also C09)", needs="ensure(error=<callable that is not a function or method>)", caught_by="C19 C09 (ensure.__init__ against the shared validation spec; replay defnfam error_argument_validation) -- first run was UNDECIDED (callable() unsupported); builtin added", status="caught after strengthening"),
 "C08-s1": dict(breaks="C08 (also C16 C13)", needs="async function with precondition, snapshot and postcondition; falsy precondition", caught_by="C08 (async wrapper trace: CapBlock before PreBlock)", status="caught"),
 "C09-s1": dict(breaks="C09 (also C08)", needs="async function, snapshot, violated ensure whose error factory names OLD, no condition naming OLD", caught_by="C09 C08 (async wrapper trace)", status="caught"),
 "C14-s1": dict(breaks="C14 (also C19)", needs="precondition-only function with a parameter or keyword named result/OLD", caught_by="C14 C19 C01.. (_assert_resolved_kwargs_valid contract: none_iff_valid) -- C14's cone did not include the unit at first; replay case added to defnfam", status="caught after strengthening"),
 "C18-s1": dict(breaks="C18 (also C02 C04)", needs="DBC override with a functools.wraps decorator above its contract decorators", caught_by="C18 (find_checker: innermost object with the lists; replay histfam 'foreign decorator on an override')", status="caught"),
 "C13-s1": dict(breaks="C13 (also C01)", needs="async method with two precondition groups (inheritance)", caught_by="C13 C01 (_assert_preconditions_async loop obligations)", status="caught"),
}
rows = []
for sid, m in sorted(SEEDS.items()):
    d = os.path.join("/verif/seeded", sid)
    if not os.path.isdir(d):
        continue
    meta = dict(id=sid, property=m["breaks"], needs_to_manifest=m["needs"], caught_by=m["caught_by"], status=m["status"],
                confirmed="tools/confirm_seed.sh: patch applies to a clean worktree; suite 358 passed / same 6 failing with the change; demo.py exits 0 without and 1 with the change",
                ran="tools/run_seed.sh <patch> <property>: git -C /repo apply; ./check <property>; git -C /repo checkout -- .")
    json.dump(meta, open(os.path.join(d, "meta.json"), "w"), indent=1)
    rows.append("| %s | %s | %s | %s |" % (sid, m["breaks"], m["status"], m["caught_by"] or "-"))
open("/verif/seeded/RESULTS.md", "w").write("# Seeded changes (from independent sub-agents) and which check reports them\n\n| seed | breaks | status | caught by |\n|---|---|---|---|\n" + "\n".join(rows) + "\n")

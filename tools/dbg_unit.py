"""usage: python3-vt tools/dbg_unit.py <unit-key-in-props.U> [name-substring]: verify one unit, list every obligation that is not proved"""
import sys, os
sys.path.insert(0, os.path.dirname(os.path.dirname(os.path.abspath(__file__))))
import props
from pyvc.engine import verify_unit
spec = props.U[sys.argv[1]]
r = verify_unit(spec, props.REG, fuel=2)
print("error:", r.error, "paths", getattr(r, "paths", None), "obls", len(r.obligations))
for o, res in zip(r.obligations, r.results):
    if res["status"] != "proved" and (len(sys.argv) < 3 or sys.argv[2] in o.name):
        print(res["status"], res.get("strategy"), res.get("candidate"), o.name, "|", " > ".join(map(str, o.meta.get("path", [])))[-200:])

#!/bin/sh
# usage: run_seed.sh <patch.diff> <PROP>... : apply a seeded change to /repo, run the checks, undo it straight afterwards
P=$1; shift
git -C /repo apply "$P" || exit 9
for prop in "$@"; do (cd /verif && ./check $prop 2>&1 | grep -v WARNING | grep -E "VIOLATION|UNDECIDED|KNOWN|discharged|SELF" | cut -c1-160; echo "exit($prop)=$?"); done
git -C /repo checkout -- .
git -C /repo status --short | head -3

#!/bin/sh
# usage: run_seed.sh <patch.diff> <PROP>... : apply a seeded change to /repo, run the checks, undo it straight afterwards
# (the evidence files the runs rewrite describe the changed tree: they are put back, so that what gets committed is the unchanged tree's)
P=$1; shift
B=$(mktemp -d /tmp/evidence_backup.XXXXXX)
cp /verif/evidence/*.json "$B"/
git -C /repo apply "$P" || { rm -rf "$B"; exit 9; }
for prop in "$@"; do (cd /verif && ./check $prop 2>&1 | grep -v WARNING | grep -E "VIOLATION|UNDECIDED|KNOWN|discharged|SELF" | cut -c1-160); done
git -C /repo checkout -- .
cp "$B"/*.json /verif/evidence/; rm -rf "$B"
git -C /repo status --short | head -3

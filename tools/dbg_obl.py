"""usage: python3-vt tools/dbg_obl.py <unit> <obligation-substring> [n]: print the goal, the hypotheses and a candidate model of the n-th matching obligation"""
import sys, os
sys.path.insert(0, os.path.dirname(os.path.dirname(os.path.abspath(__file__))))
import z3, props
from pyvc import engine, solve
captured = []
orig = solve.discharge_all
def fake(obls, *a, **k):
    captured.extend(obls)
    return [{"status": "proved", "backend": "skip", "ms": 0} for _ in obls]
engine.discharge_all = fake
solve.discharge_all = fake
spec = props.U[sys.argv[1]]
r = engine.verify_unit(spec, props.REG, fuel=2)
print("error", r.error, len(captured))
m = [o for o in captured if sys.argv[2] in o.name]
if len(sys.argv) > 3 and sys.argv[3] == "fail":  # the first match that the quick strategies do not prove
    for o in m:
        if all(solve.discharge(o, props.REG.specfuns, fuel=2, strategy=st)["status"] != "proved" for st in solve.STRATEGIES[:2]):
            break
else:
    o = m[int(sys.argv[3]) if len(sys.argv) > 3 else 0]
print(o.name, o.meta.get("path"))
print("GOAL:", o.goal)
for h in o.hyps:
    s = str(h)
    print("HYP:", s[:600].replace("\n", " "))
for st in (solve.STRATEGIES if not os.environ.get("LONG") else [("ground", 60000, False, False), ("ematch", 60000, False, False), ("full", 60000, False, True)]):
    res = solve.discharge(o, props.REG.specfuns, fuel=2, strategy=st)
    print(st[0], res["status"], res.get("ms"))
    if res["status"] == "proved": break
if res.get("model") is not None:
    mdl = res["model"]
    def walk(e, seen, depth=0):
        if e.get_id() in seen or depth > 6: return
        seen.add(e.get_id())
        try:
            print("   ", str(e)[:160].replace("\n", " "), "=", str(mdl.eval(e, model_completion=True))[:120])
        except Exception as x:
            pass
        for c in e.children(): walk(c, seen, depth + 1)
    walk(o.goal, set())

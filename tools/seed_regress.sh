#!/bin/sh
# usage: seed_regress.sh [ids...] : run every seeded change against the first property its meta.json names under caught_by
cd /verif
for d in ${@:-$(ls seeded | grep -v RESULTS)}; do
  p=$(python3 -c "import json,re,sys; m=json.load(open('/verif/seeded/$d/meta.json')); print(re.findall(r'C\d\d', m['caught_by'])[0])")
  out=$(sh tools/run_seed.sh /verif/seeded/$d/patch.diff $p 2>&1)
  v=$(echo "$out" | grep -c "^VIOLATION")
  nf=$(echo "$out" | grep "^VIOLATION" | grep -vc "no-failing-input-found")
  echo "$d $p violations=$v with_replayed_input=$nf $(echo "$out" | grep discharged | cut -c1-60)"
done

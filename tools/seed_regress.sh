#!/bin/sh
# usage: seed_regress.sh [ids...] : run every seeded change against the property it was written for; one line per seed
cd /verif
for d in ${@:-$(ls seeded | grep -v RESULTS)}; do
  p=$(echo $d | cut -d- -f1)
  out=$(sh tools/run_seed.sh /verif/seeded/$d/patch.diff $p 2>&1)
  v=$(echo "$out" | grep -c "^VIOLATION")
  nf=$(echo "$out" | grep "^VIOLATION" | grep -vc "no-failing-input-found")
  echo "$d $p violations=$v with_replayed_input=$nf $(echo "$out" | grep discharged | cut -c1-60)"
done

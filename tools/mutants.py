"""Moved to /verif/mutants.py (importable by the checker's thorough tier): python3-vt mutants.py [--units a,b] [--shard k/n] [--out f.json]"""
import os, runpy, sys
sys.argv[0] = os.path.join(os.path.dirname(os.path.dirname(os.path.abspath(__file__))), "mutants.py")
runpy.run_path(sys.argv[0], run_name="__main__")

"""Replay harness, 'history' family (C04 C17 C18): sequences of class definitions on the contract-inheriting base, compared
with the effective contracts computed from the declarations (statement of C04) and with snapshots of every earlier
class taken before each step (C17).   PYTHONPATH=<tree> /venv/bin/python histfam.py --search | --scenario f.json
program = {"classes": [{"name", "bases": [names], "methods": {m: {"pre": n, "post": n, "snaps": n}}, "invs": ["CALL"|"SETATTR"|"ALL", ...]}]}
 (n = number of own conditions; 0 = the class defines the method without that kind of contract; a method absent from
 "methods" is not defined by the class).  Every class derives from icontract.DBC."""
import json
import sys

import icontract
import icontract._checkers as ck

TRUTH = {}


def mk_cond(tag, kind):
    if kind == "post":
        def cond(self, x, result):
            return TRUTH.get(tag, True)
    elif kind == "inv":
        def cond(self):
            return TRUTH.get(tag, True)
    elif kind == "ppost":  # postcondition of a property getter
        def cond(self, result):
            return TRUTH.get(tag, True)
    elif kind == "ppre":
        def cond(self):
            return TRUTH.get(tag, True)
    else:
        def cond(self, x):
            return TRUTH.get(tag, True)
    cond.__name__ = tag.replace(".", "_")
    cond.tag = tag
    return cond


def define(c, classes):
    ns = {}
    for m, spec in c.get("methods", {}).items():
        if spec.get("rebind"):  # `m = Base.m` in the class body: the inherited member, bound again under its own name
            ns[m] = classes[spec["rebind"]].__dict__[m]
            continue
        isprop = bool(spec.get("prop"))
        if isprop:
            def f(self, _m=m, _n=c["name"]):
                return 7
        else:
            def f(self, x, _m=m, _n=c["name"]):
                return x
        f.__name__ = m
        g = f
        for i in range(spec.get("post", 0)):
            g = icontract.ensure(mk_cond("%s.%s.post%d" % (c["name"], m, i), "ppost" if isprop else "post"))(g)
        for i in range(spec.get("snaps", 0)):
            g = icontract.snapshot((lambda self: 0) if isprop else (lambda x: x), name="%s_%s_s%d" % (c["name"], m, i))(g)
        for i in range(spec.get("pre", 0)):
            g = icontract.require(mk_cond("%s.%s.pre%d" % (c["name"], m, i), "ppre" if isprop else "pre"))(g)
        if isprop:
            ns[m] = property(g)
            continue
        if spec.get("wraps"):
            import functools

            def foreign(h):
                @functools.wraps(h)
                def w(*a, **k):
                    return h(*a, **k)
                return w
            g = foreign(g)  # a third-party decorator on top of the contract decorators
        ns[m] = g
    bases = tuple(classes[b] for b in c.get("bases", [])) or (icontract.DBC,)
    cls = type(bases[0])(c["name"], bases, ns)
    for i, on in enumerate(c.get("invs", [])):
        flag = {"CALL": icontract.InvariantCheckEvent.CALL, "SETATTR": icontract.InvariantCheckEvent.SETATTR, "ALL": icontract.InvariantCheckEvent.ALL}[on]
        cls = icontract.invariant(mk_cond("%s.inv%d" % (c["name"], i), "inv"), check_on=flag)(cls)
    return cls


def tags(lst_):
    return [getattr(k.condition, "tag", "?") for k in lst_]


def innermost_checker(f):
    """The integrators' rule, implemented here independently of the library: the innermost object of the __wrapped__
    chain that carries the contract lists is the one checker (outer functools.wraps layers only copy the references)."""
    found = None
    seen = 0
    while f is not None and seen < 50:
        if hasattr(f, "__preconditions__") or hasattr(f, "__postconditions__"):
            found = f
        f = getattr(f, "__wrapped__", None)
        seen += 1
    return found


def observe(cls, methods):
    """What introspection shows for a class: list identities and contents (C18's interface)."""
    out = {}
    for d in ("__invariants__", "__invariants_on_call__", "__invariants_on_setattr__"):
        l = getattr(cls, d, None)
        out[d] = None if l is None else (id(l), tags(l))
    for m in methods:
        f = getattr(cls, m, None)
        if isinstance(f, property):
            f = f.fget
        k = innermost_checker(f) if f is not None else None
        if k is None:
            out[m] = None
        else:
            out[m] = (id(k.__preconditions__), [(id(g), tags(g)) for g in k.__preconditions__], id(k.__postconditions__), tags(k.__postconditions__),
                      id(k.__postcondition_snapshots__), [s.name for s in k.__postcondition_snapshots__])
    return out


# ---- reference (statement of C04) --------------------------------------------------------------------------------
def ref_member(prog, cname, m, cache):
    key = (cname, m)
    if key in cache:
        return cache[key]
    by = {c["name"]: c for c in prog["classes"]}
    c = by[cname]
    own = c.get("methods", {}).get(m)
    inherited = [ref_member(prog, b, m, cache) for b in c.get("bases", [])]
    inherited = [r for r in inherited if r is not None]
    if own is not None and own.get("rebind"):
        res = ref_member(prog, own["rebind"], m, cache)  # the base's member itself: its contracts, nothing added
    elif own is None:
        res = inherited[0] if inherited else None  # not redefined: whatever lookup finds (first base providing it)
    else:
        own_pre = ["%s.%s.pre%d" % (cname, m, i) for i in range(own.get("pre", 0))]
        own_post = ["%s.%s.post%d" % (cname, m, i) for i in range(own.get("post", 0))]
        own_snaps = ["%s_%s_s%d" % (cname, m, i) for i in range(own.get("snaps", 0))]
        if m in ("__init__", "__new__"):
            inherited = []  # constructor contracts are not inherited
        if any(r["pre"] == [] for r in inherited):
            pre = "TypeError" if own_pre else []
        else:
            pre = [g for r in inherited for g in r["pre"]] + ([own_pre] if own_pre else [])
        res = {"pre": pre, "post": [t for r in inherited for t in r["post"]] + own_post, "snaps": [t for r in inherited for t in r["snaps"]] + own_snaps}
    cache[key] = res
    return res


def ref_invs(prog, cname, which, cache):
    by = {c["name"]: c for c in prog["classes"]}
    c = by[cname]
    out = []
    for b in c.get("bases", []):
        out += ref_invs(prog, b, which, cache)
    for i, on in enumerate(c.get("invs", [])):
        if which is None or on == "ALL" or on == which:
            out.append("%s.inv%d" % (cname, i))
    return out


def run(prog):
    classes = {}
    problems = []
    methods = sorted({m for c in prog["classes"] for m in c.get("methods", {})})
    cache = {}
    for c in prog["classes"]:
        before = {n: observe(k, methods) for n, k in classes.items()}
        expect_error = any((ref_member(prog, c["name"], m, cache) or {}).get("pre") == "TypeError" for m in c.get("methods", {}))
        try:
            classes[c["name"]] = define(c, classes)
            if expect_error:
                problems.append({"what": "adding preconditions under an ancestor that declares none was accepted", "class": c["name"]})
        except (TypeError, ValueError) as e:
            if not (expect_error and isinstance(e, TypeError)):
                problems.append({"what": "class creation rejected with %s: %s" % (type(e).__name__, str(e)[:120]), "class": c["name"]})
            continue
        for n, obs in before.items():
            now = observe(classes[n], methods)
            if now != obs:
                diff = [k for k in obs if obs[k] != now[k]]
                problems.append({"what": "defining %s changed the contracts of the earlier class %s" % (c["name"], n), "members": diff,
                                 "before": {k: obs[k] for k in diff}, "after": {k: now[k] for k in diff}})
        got = observe(classes[c["name"]], methods)
        for m in methods:
            exp = ref_member(prog, c["name"], m, cache)
            g = got[m]
            if exp is None or exp.get("pre") == "TypeError":
                continue
            if exp["pre"] == [] and exp["post"] == [] and g is None:
                continue
            shown = None if g is None else {"pre": [t for _, t in g[1]], "post": g[3], "snaps": g[5]}
            if shown != exp:
                problems.append({"what": "effective contracts of %s.%s differ from the declarations" % (c["name"], m), "expected": exp, "introspected": shown})
        for d, which in (("__invariants__", None), ("__invariants_on_call__", "CALL"), ("__invariants_on_setattr__", "SETATTR")):
            exp = ref_invs(prog, c["name"], which, cache)
            g = got[d]
            if (g[1] if g else []) != exp:
                problems.append({"what": "%s of %s" % (d, c["name"]), "expected": exp, "introspected": g[1] if g else None})
    return problems


def scenarios():
    M = lambda **kw: dict(kw)
    yield "invariant added below a CALL-only base", {"classes": [{"name": "P", "invs": ["CALL"]}, {"name": "R", "bases": ["P"]}, {"name": "S", "bases": ["R"], "invs": ["SETATTR"]}]}
    yield "invariant added below a SETATTR-only base", {"classes": [{"name": "P", "invs": ["SETATTR"]}, {"name": "S", "bases": ["P"], "invs": ["CALL"]}, {"name": "T", "bases": ["P"], "invs": ["ALL"]}]}
    yield "two bases one unconstrained", {"classes": [{"name": "A1", "methods": {"m": M(pre=1)}}, {"name": "A2", "methods": {"m": M()}}, {"name": "C", "bases": ["A1", "A2"], "methods": {"m": M()}}]}
    yield "two bases one unconstrained, own preconditions", {"classes": [{"name": "A1", "methods": {"m": M(pre=1)}}, {"name": "A2", "methods": {"m": M()}}, {"name": "C", "bases": ["A1", "A2"], "methods": {"m": M(pre=1)}}]}
    yield "two bases unconstrained first, postcondition on the second", {"classes": [{"name": "E", "methods": {"m": M()}}, {"name": "P", "methods": {"m": M(post=1, snaps=1)}}, {"name": "C", "bases": ["E", "P"], "methods": {"m": M()}}, {"name": "D", "bases": ["P", "E"], "methods": {"m": M(post=1)}}]}
    yield "two bases with preconditions", {"classes": [{"name": "A", "methods": {"m": M(pre=1)}}, {"name": "B", "methods": {"m": M(pre=2)}}, {"name": "C", "bases": ["A", "B"], "methods": {"m": M(pre=1, post=1)}}, {"name": "D", "bases": ["A", "B"], "methods": {"m": M()}}]}
    yield "chain with posts and snapshots", {"classes": [{"name": "A", "methods": {"m": M(pre=1, post=2, snaps=1)}}, {"name": "B", "bases": ["A"], "methods": {"m": M(pre=1, post=1, snaps=1)}}, {"name": "C", "bases": ["B"], "methods": {"m": M(post=1)}}, {"name": "G", "bases": ["B"]}]}
    yield "foreign decorator on an override", {"classes": [{"name": "A", "methods": {"m": M(pre=1, post=1)}}, {"name": "B", "bases": ["A"], "methods": {"m": dict(pre=1, post=1, wraps=True)}}]}
    yield "weaken under unconstrained ancestor", {"classes": [{"name": "A", "methods": {"m": M()}}, {"name": "B", "bases": ["A"], "methods": {"m": M(pre=1)}}]}
    yield "gap in the chain", {"classes": [{"name": "A", "methods": {"m": M(pre=1, post=1)}}, {"name": "B", "bases": ["A"]}, {"name": "C", "bases": ["B"], "methods": {"m": M(pre=1, post=1)}}, {"name": "S", "bases": ["A"], "methods": {"m": M(pre=2)}}]}
    yield "constructor contracts are not inherited", {"classes": [{"name": "A", "methods": {"__init__": M(pre=1)}}, {"name": "B", "bases": ["A"], "methods": {"__init__": M(pre=1)}}]}
    yield "inherited method bound again in the subclass (m = A.m)", {"classes": [{"name": "A", "methods": {"m": M(pre=1, post=1)}}, {"name": "B", "bases": ["A"], "methods": {"m": dict(rebind="A")}},
                                                                                 {"name": "C", "bases": ["B"], "methods": {"m": M(post=1)}}]}
    yield "inherited method picked explicitly among two bases (m = A.m)", {"classes": [{"name": "A", "methods": {"m": M(pre=1, post=1, snaps=1)}}, {"name": "K", "methods": {"m": M(pre=1, post=1)}},
                                                                                   {"name": "B", "bases": ["A", "K"], "methods": {"m": dict(rebind="A")}}]}
    yield "inherited property bound again in the subclass (p = A.p)", {"classes": [{"name": "A", "methods": {"p": dict(post=1, prop=True)}}, {"name": "B", "bases": ["A"], "methods": {"p": dict(rebind="A")}}]}
    P = lambda **kw: dict(kw, prop=True)
    yield "property: two bases with postconditions, overridden", {"classes": [{"name": "A", "methods": {"p": P(post=1)}}, {"name": "B", "methods": {"p": P(post=1, snaps=1)}}, {"name": "C", "bases": ["A", "B"], "methods": {"p": P(post=1)}},
                                                                              {"name": "D", "bases": ["B", "A"], "methods": {"p": P()}}]}
    yield "property: two bases with preconditions", {"classes": [{"name": "A", "methods": {"p": P(pre=1)}}, {"name": "B", "methods": {"p": P(pre=2)}}, {"name": "C", "bases": ["A", "B"], "methods": {"p": P(pre=1)}}, {"name": "D", "bases": ["A", "B"]}]}
    yield "property: two bases one unconstrained", {"classes": [{"name": "A", "methods": {"p": P(pre=1)}}, {"name": "B", "methods": {"p": P()}}, {"name": "C", "bases": ["A", "B"], "methods": {"p": P()}}, {"name": "D", "bases": ["B", "A"], "methods": {"p": P(pre=1)}}]}
    yield "property: chain with a gap", {"classes": [{"name": "A", "methods": {"p": P(pre=1, post=1)}}, {"name": "B", "bases": ["A"]}, {"name": "C", "bases": ["B"], "methods": {"p": P(pre=1, post=1)}}]}
    yield "invariants along a chain", {"classes": [{"name": "A", "invs": ["CALL", "ALL"]}, {"name": "B", "bases": ["A"], "invs": ["CALL"]}, {"name": "C", "bases": ["B"]}, {"name": "D", "bases": ["A"], "invs": ["SETATTR"]}]}


def main(argv):
    import argparse
    ap = argparse.ArgumentParser()
    ap.add_argument("--search", action="store_true")
    ap.add_argument("--scenario")
    ap.add_argument("--hints", default="")
    ap.add_argument("--out")
    ap.add_argument("--all", action="store_true")
    a = ap.parse_args(argv)
    res = {"icontract_file": icontract.__file__, "found": False}
    items = list(scenarios())
    if a.scenario:
        scn = json.load(open(a.scenario))
        items = [("given", scn.get("program", scn))]
    hints = [h for h in a.hints.split(",") if h]
    items.sort(key=lambda t: min([i for i, h in enumerate(hints) if h in t[0]] + [len(hints)]))
    n = 0
    for tag, prog in items:
        n += 1
        try:
            probs = run(prog)
        except Exception as e:
            res.setdefault("harness_errors", []).append("%s: %r" % (tag, e))
            continue
        if probs:
            if a.all:
                res.setdefault("all", []).append([tag, probs[0]["what"]])
                continue
            res.update(found=True, shape=tag, program=prog, problems=probs[:4])
            break
    res["tried"] = n
    txt = json.dumps(res, indent=1, default=str)
    if a.out:
        open(a.out, "w").write(txt)
    print(txt[:2500])
    return 0


if __name__ == "__main__":
    sys.exit(main(sys.argv[1:]))

"""Replay harness, 'binding' family (C05): for small signatures and every call shape Python accepts, a precondition, a
snapshot capture and a postcondition that name a parameter must receive the very object the body receives for it.

  PYTHONPATH=<tree> /venv/bin/python bindfam.py --search | --scenario f.json
A scenario: {"params": [[name, kind, has_default], ...], "npos": k, "kw": [names...]}   kinds: PO PK VP KO VK
"""
import inspect
import itertools
import json
import sys

import icontract


class Obj:
    def __init__(self, tag):
        self.tag = tag

    def __repr__(self):
        return "<%s>" % self.tag


def render(params):
    parts = []
    seen_slash = False
    seen_star = False
    for idx, (name, kind, has_default) in enumerate(params):
        if kind != "PO" and not seen_slash and any(k == "PO" for _, k, _ in params[:idx]):
            parts.append("/")
            seen_slash = True
        if kind == "VP":
            parts.append("*" + name)
            seen_star = True
        elif kind == "VK":
            parts.append("**" + name)
        else:
            if kind == "KO" and not seen_star:
                parts.append("*")
                seen_star = True
            parts.append(name + ("=DEF_%s" % name if has_default else ""))
    if not seen_slash and any(k == "PO" for _, k, _ in params):
        parts.append("/")
    return ", ".join(parts)


def run(scn):
    a = run1(scn, False)
    if a is None:
        return None
    b = run1(scn, True) or []
    for p in b:
        p["rendering"] = "async def"
    return a + b


def run1(scn, is_async):
    import asyncio
    params = scn["params"]
    sig = render(params)
    env = {"Obj": Obj}
    for name, kind, has_default in params:
        if has_default:
            env["DEF_" + name] = Obj("default:" + name)
    src = "%sdef f(%s):\n    return dict(locals())\n" % ("async " if is_async else "", sig)
    exec(src, env)
    f = env["f"]
    pos = [Obj("pos%d" % i) for i in range(scn["npos"])]
    kw = {k: Obj("kw:" + k) for k in scn["kw"]}
    try:
        # the call itself is the reference (inspect.signature(f).bind wrongly rejects f(a=1) for `def f(a=0, /, **c)` on 3.12)
        body = asyncio.run(f(*pos, **kw)) if is_async else f(*pos, **kw)
    except TypeError:
        return None  # Python cannot bind this call: outside the property's quantifier
    problems = []
    for name, kind, _ in params:
        if kind in ("VP", "VK"):
            continue
        seen = {}
        cond = eval("lambda %s: seen.__setitem__('pre', %s) or True" % (name, name), {"seen": seen})
        post = eval("lambda %s, result, OLD: seen.__setitem__('post', %s) or seen.__setitem__('old', OLD.snap) or True" % (name, name), {"seen": seen})
        cap = eval("lambda %s: %s" % (name, name))
        g = icontract.require(cond)(icontract.snapshot(cap, name="snap")(icontract.ensure(post)(f)))
        try:
            if is_async:
                asyncio.run(g(*pos, **kw))
            else:
                g(*pos, **kw)
        except TypeError as e:
            problems.append({"param": name, "what": "call rejected: %s" % str(e)[:120]})
            continue
        for role in ("pre", "post", "old"):
            if seen.get(role) is not body[name]:
                problems.append({"param": name, "role": role, "contract_saw": repr(seen.get(role)), "body_got": repr(body[name])})
    return problems


def scenarios():
    kinds_orders = []
    names = ["a", "b", "c"]
    for n in (1, 2, 3):
        for ks in itertools.product(["PO", "PK", "VP", "KO", "VK"], repeat=n):
            rank = ["PO", "PK", "VP", "KO", "VK"]
            if list(ks) != sorted(ks, key=rank.index) or ks.count("VP") > 1 or ks.count("VK") > 1:
                continue
            for defs in itertools.product([False, True], repeat=n):
                params = [[names[i], ks[i], bool(defs[i]) and ks[i] not in ("VP", "VK")] for i in range(n)]
                # non-default after default among positional parameters is a SyntaxError
                posd = [p[2] for p in params if p[1] in ("PO", "PK")]
                if any(posd[i] and not posd[i + 1] for i in range(len(posd) - 1)):
                    continue
                kinds_orders.append(params)
    for params in kinds_orders:
        nm = [p[0] for p in params]
        for npos in range(0, 4):
            for r in range(0, 3):
                for kw in itertools.combinations(nm + ["z"], r):
                    yield {"params": params, "npos": npos, "kw": list(kw)}


def main(argv):
    import argparse
    ap = argparse.ArgumentParser()
    ap.add_argument("--search", action="store_true")
    ap.add_argument("--scenario")
    ap.add_argument("--hints", default="")
    ap.add_argument("--out")
    a = ap.parse_args(argv)
    res = {"icontract_file": icontract.__file__, "found": False}
    if a.scenario:
        scn = json.load(open(a.scenario))
        scn = scn.get("program", scn)
        probs = run(scn)
        res.update(found=bool(probs), program=scn, problems=probs, tried=1, signature=render(scn["params"]))
    else:
        n = bound = 0
        for scn in scenarios():
            n += 1
            probs = run(scn)
            if probs is None:
                continue
            bound += 1
            if probs:
                res.update(found=True, program=scn, problems=probs, signature="def f(%s)" % render(scn["params"]),
                           call="f(%s)" % ", ".join(["pos%d" % i for i in range(scn["npos"])] + ["%s=..." % k for k in scn["kw"]]))
                break
        res.update(tried=n, calls_python_binds=bound)
    txt = json.dumps(res, indent=1, default=str)
    if a.out:
        open(a.out, "w").write(txt)
    print(txt[:2500])
    return 0


if __name__ == "__main__":
    sys.exit(main(sys.argv[1:]))

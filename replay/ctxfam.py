"""Replay harness, 'context' family (C12): concurrent callers under controlled interleavings and context inheritance.
The verdict of each call must equal its sequential verdict (a violated precondition is reported, whatever the others do).

  PYTHONPATH=<tree> /venv/bin/python ctxfam.py --search | --scenario f.json
scenario = {"kind": "tasks"|"threads"|"to_thread"|"method_tasks", "warmup": bool, "args": [x1, x2, ...]}
"""
import asyncio
import contextvars
import json
import sys
import threading

import icontract


def verdict(f):
    try:
        return ["return", f()]
    except icontract.ViolationError:
        return ["raise", "ViolationError"]
    except BaseException as e:
        return ["raise", type(e).__name__]


def run(scn):
    kind, warm, xs = scn["kind"], scn.get("warmup", False), scn["args"]
    expected = [["return", x] if x > 0 else ["raise", "ViolationError"] for x in xs]
    if kind == "tasks":
        @icontract.require(lambda x: x > 0)
        async def af(x):
            await asyncio.sleep(0.01)
            return x

        async def main():
            if warm:
                await af(1)
            res = await asyncio.gather(*[af(x) for x in xs], return_exceptions=True)
            return [["raise", "ViolationError"] if isinstance(r, icontract.ViolationError) else (["raise", type(r).__name__] if isinstance(r, BaseException) else ["return", r]) for r in res]
        got = asyncio.run(main())
    elif kind == "tasks_async_cond":
        async def cond(x):
            await asyncio.sleep(0.01)  # the contract itself suspends: the marker is held across this await
            return x > 0

        @icontract.require(cond)
        async def af(x):
            return x

        async def main():
            if warm:
                await af(1)
            res = await asyncio.gather(*[af(x) for x in xs], return_exceptions=True)
            return [["raise", "ViolationError"] if isinstance(r, icontract.ViolationError) else (["raise", type(r).__name__] if isinstance(r, BaseException) else ["return", r]) for r in res]
        got = asyncio.run(main())
    elif kind == "method_tasks":
        class A(icontract.DBC):
            def __init__(self):
                self.ok = True

            @icontract.require(lambda x: x > 0)
            async def m(self, x):
                await asyncio.sleep(0.01)
                return x
        a = A()

        async def main():
            if warm:
                await a.m(1)
            res = await asyncio.gather(*[a.m(x) for x in xs], return_exceptions=True)
            return [["raise", "ViolationError"] if isinstance(r, icontract.ViolationError) else (["raise", type(r).__name__] if isinstance(r, BaseException) else ["return", r]) for r in res]
        got = asyncio.run(main())
    elif kind in ("threads", "to_thread", "to_thread_slow_cond"):
        gate = threading.Barrier(len(xs))

        def meet():
            try:
                gate.wait(timeout=1)
            except threading.BrokenBarrierError:
                pass
            return True

        if kind == "to_thread_slow_cond":
            # the *condition* waits for the other callers: all of them are inside contract evaluation at once
            @icontract.require(lambda x: meet() and x > 0)
            def f(x):
                return x
        else:
            @icontract.require(lambda x: x > 0)
            def f(x):
                meet()
                return x
        if warm:
            # make the parent's context carry a non-empty history: one checked call before the children are started
            @icontract.require(lambda x: x > 0)
            def w(x):
                return x
            w(1)
        got = [None] * len(xs)

        def work(i, x):
            got[i] = verdict(lambda: f(x))
        ts = []
        for i, x in enumerate(xs):
            if kind.startswith("to_thread"):
                ctx = contextvars.copy_context()  # what asyncio.to_thread / run_in_executor do
                t = threading.Thread(target=ctx.run, args=(work, i, x))
            else:
                t = threading.Thread(target=work, args=(i, x))
            ts.append(t)
            t.start()
        for t in ts:
            t.join()
    else:
        raise ValueError(kind)
    if got != expected:
        return [{"what": "verdict depends on the concurrent calls", "expected": expected, "got": got}]
    return []


def scenarios():
    for kind in ("tasks_async_cond", "to_thread_slow_cond", "tasks", "method_tasks", "to_thread", "threads"):
        for warm in (True, False):
            for xs in ([1, -1], [-1, 1], [1, -1, 1, -1], [-1, -1]):
                yield {"kind": kind, "warmup": warm, "args": xs}


def main(argv):
    import argparse
    ap = argparse.ArgumentParser()
    ap.add_argument("--search", action="store_true")
    ap.add_argument("--scenario")
    ap.add_argument("--hints", default="")
    ap.add_argument("--out")
    a = ap.parse_args(argv)
    res = {"icontract_file": icontract.__file__, "found": False}
    if a.scenario:
        scn = json.load(open(a.scenario))
        scn = scn.get("program", scn)
        probs = run(scn)
        res.update(found=bool(probs), program=scn, problems=probs, tried=1)
    else:
        n = 0
        for scn in scenarios():
            n += 1
            probs = run(scn)
            if probs:
                res.update(found=True, program=scn, problems=probs)
                break
        res["tried"] = n
    txt = json.dumps(res, indent=1, default=str)
    if a.out:
        open(a.out, "w").write(txt)
    print(txt[:2000])
    return 0


if __name__ == "__main__":
    sys.exit(main(sys.argv[1:]))

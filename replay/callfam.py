"""Replay harness, 'call' family: small programs of contracted functions, run on the real icontract of the tree under
test and compared with a reference evaluator written from the property statements (C01 C02 C08 C09 C10 C11 C13 C16).

Runs under the repository's interpreter:  PYTHONPATH=<tree> /venv/bin/python callfam.py --search|--scenario f.json
It shares no code with pyvc or the specs. A *program* is a dict of functions of one integer argument x:
  {"mode": "sync"|"async", "funcs": {name: {"pre": [[cond,..],..], "snaps": [snap,..], "post": [cond,..], "body": body}},
   "calls": [[name, x], ...]}            # top-level calls, each followed by the next (probe calls for C11)
  cond = {"v": true|false|"ge0"|"raise"|"raise_base", "err": "none"|"cls"|"falsy_cls"|"inst"|"factory"|"falsy_factory",
          "calls": [[name, "x"|"x-1"|int], ...], "async": bool}
  snap = {"name": str, "v": "x"|"raise", "async": bool}
  body = {"ret": "x"|"none"|"falsy", "raise": null|"exc"|"base", "calls": [[name, argexpr, only_if_positive], ...]}
"""
import asyncio
import json
import sys

import icontract


class FalsyError(Exception):
    def __bool__(self):
        return False


class Boom(Exception):
    pass


class BaseBoom(BaseException):
    pass


class Falsy:
    def __bool__(self):
        return False


def arg(expr, x):
    if expr == "x":
        return x
    if expr == "x-1":
        return x - 1
    return expr


def truth(v, x):
    if v == "ge0":
        return x >= 0
    return bool(v)


# ---------------------------------------------------------------------------------------------------------------
# reference evaluator (from the statements)
# ---------------------------------------------------------------------------------------------------------------
class Ref:
    def __init__(self, prog):
        self.p = prog
        self.log = []
        self.in_progress = set()  # functions whose contracts are being evaluated (C10)
        self.depth = 0

    def err(self, fname, role, i, j, c):
        e = c.get("err", "none")
        tag = "%s.%s%d.%d" % (fname, role, i, j)
        return ["raise", {"none": "ViolationError", "cls": "Boom", "falsy_cls": "FalsyError", "inst": "inst:" + tag,
                          "factory": "factory:" + tag, "falsy_factory": "falsyfactory:" + tag}[e]]

    def cond(self, fname, role, i, j, c, x):
        tag = "%s.%s%d.%d" % (fname, role, i, j)
        self.log.append(["cond", tag, x])
        for callee, ae in c.get("calls", []):
            r = self.call(callee, arg(ae, x))
            if r[0] == "raise":
                return r
        if c["v"] == "raise":
            return ["raise", "Boom"]
        if c["v"] == "raise_base":
            return ["raise", "BaseBoom"]
        return ["ok", truth(c["v"], x)]

    def call(self, fname, x):
        self.depth += 1
        if self.depth > 60:
            raise RecursionError("reference: unbounded recursion")
        try:
            return self._call(fname, x)
        finally:
            self.depth -= 1

    def _call(self, fname, x):
        f = self.p["funcs"][fname]
        if fname in self.in_progress:
            return self.body(fname, f, x)
        self.in_progress.add(fname)
        try:
            groups = f.get("pre", [])
            failure = None
            for i, g in enumerate(groups):
                failure = None
                for j, c in enumerate(g):
                    r = self.cond(fname, "pre", i, j, c, x)
                    if r[0] == "raise":
                        return r
                    if not r[1]:
                        failure = self.err(fname, "pre", i, j, c)
                        break
                if failure is None:
                    break
            if failure is not None:
                return failure
            posts = f.get("post", [])
            if posts and f.get("snaps"):
                for s in f["snaps"]:
                    self.log.append(["cap", fname + "." + s["name"], x])
                    for callee, ae in s.get("calls", []):
                        r = self.call(callee, arg(ae, x))
                        if r[0] == "raise":
                            return r
                    if s.get("v") == "raise":
                        return ["raise", "Boom"]
        finally:
            self.in_progress.discard(fname)
        r = self.body(fname, f, x)  # the marker is released for the body: recursive calls by a body are checked
        if r[0] == "raise" or not posts:
            return r
        self.in_progress.add(fname)
        try:
            for j, c in enumerate(posts):
                rr = self.cond(fname, "post", 0, j, c, x)
                if rr[0] == "raise":
                    return rr
                if not rr[1]:
                    return self.err(fname, "post", 0, j, c)
            return r
        finally:
            self.in_progress.discard(fname)

    def body(self, fname, f, x):
        b = f.get("body", {})
        self.log.append(["body", fname, x])
        for callee, ae, pos in b.get("calls", []):
            if pos and x <= 0:
                continue
            r = self.call(callee, arg(ae, x))
            if r[0] == "raise":
                return r
        if b.get("raise") == "exc":
            return ["raise", "Boom"]
        if b.get("raise") == "base":
            return ["raise", "BaseBoom"]
        return ["return", {"x": x, "none": None, "falsy": "Falsy"}[b.get("ret", "x")]]

    def run(self):
        out = []
        for fname, x in self.p["calls"]:
            try:
                out.append(self.call(fname, x))
            except RecursionError:
                out.append(["raise", "RecursionError(reference)"])
        return out


# ---------------------------------------------------------------------------------------------------------------
# the real thing: the same program built from icontract decorators of the tree under test
# ---------------------------------------------------------------------------------------------------------------
class Real:
    def __init__(self, prog):
        self.p = prog
        self.log = []
        self.funcs = {}
        self.insts = {}
        self.is_async = prog.get("mode") == "async"
        for name in prog["funcs"]:
            self.funcs[name] = self.build(name, prog["funcs"][name])

    def error_arg(self, tag, c):
        e = c.get("err", "none")
        if e == "none":
            return None
        if e == "cls":
            return Boom
        if e == "falsy_cls":
            return FalsyError
        if e == "inst":
            self.insts[tag] = Boom("inst:" + tag)
            return self.insts[tag]
        log = self.log

        def factory(x):
            log.append(["errf", tag])
            return (FalsyError if e == "falsy_factory" else Boom)(("falsyfactory:" if e == "falsy_factory" else "factory:") + tag)
        return factory

    def mk_cond(self, tag, c):
        me = self

        def work(x):
            me.log.append(["cond", tag, x])
            return x

        if self.is_async and c.get("async"):
            async def cond(x):
                work(x)
                for callee, ae in c.get("calls", []):
                    await me.funcs[callee](arg(ae, x))
                if c["v"] == "raise":
                    raise Boom("Boom")
                if c["v"] == "raise_base":
                    raise BaseBoom("BaseBoom")
                return truth(c["v"], x)
            return cond

        def cond(x):
            work(x)
            for callee, ae in c.get("calls", []):
                r = me.funcs[callee](arg(ae, x))
                if asyncio.iscoroutine(r):
                    r.close()
                    raise RuntimeError("scenario calls an async function from a sync condition")
            if c["v"] == "raise":
                raise Boom("Boom")
            if c["v"] == "raise_base":
                raise BaseBoom("BaseBoom")
            return truth(c["v"], x)
        return cond

    def build(self, name, f):
        me = self
        b = f.get("body", {})

        def finish(x):
            if b.get("raise") == "exc":
                raise Boom("Boom")
            if b.get("raise") == "base":
                raise BaseBoom("BaseBoom")
            return {"x": x, "none": None, "falsy": Falsy()}[b.get("ret", "x")] if b.get("ret", "x") != "x" else x

        if self.is_async:
            async def func(x):
                me.log.append(["body", name, x])
                for callee, ae, pos in b.get("calls", []):
                    if pos and x <= 0:
                        continue
                    await me.funcs[callee](arg(ae, x))
                return finish(x)
        else:
            def func(x):
                me.log.append(["body", name, x])
                for callee, ae, pos in b.get("calls", []):
                    if pos and x <= 0:
                        continue
                    me.funcs[callee](arg(ae, x))
                return finish(x)
        func.__name__ = name
        groups = f.get("pre", [])
        posts = f.get("post", [])
        snaps = f.get("snaps", [])
        if not groups and not posts:
            return func
        checker = func
        # decorators apply bottom-up: the first listed condition is the one nearest the function
        for j, c in enumerate(posts):
            tag = "%s.post0.%d" % (name, j)
            checker = icontract.ensure(self.mk_cond(tag, c), error=self.error_arg(tag, c))(checker)
        for s in snaps:
            checker = icontract.snapshot(self.mk_cap(name, s), name=s["name"])(checker)
        contracts = []
        for i, g in enumerate(groups):
            row = []
            for j, c in enumerate(g):
                tag = "%s.pre%d.%d" % (name, i, j)
                row.append(icontract._types.Contract(condition=self.mk_cond(tag, c), error=self.error_arg(tag, c)))
            contracts.append(row)
        if groups:
            if checker is func:
                checker = icontract._checkers.decorate_with_checker(func)
            # several groups only arise through inheritance; they are installed through the documented
            # introspection attribute, exactly as the metaclass does
            checker.__preconditions__ = contracts
        return checker

    def mk_cap(self, fname, s):
        me = self
        if self.is_async and s.get("async"):
            async def cap(x):
                me.log.append(["cap", fname + "." + s["name"], x])
                if s.get("v") == "raise":
                    raise Boom("Boom")
                return x
            return cap

        def cap(x):
            me.log.append(["cap", fname + "." + s["name"], x])
            for callee, ae in s.get("calls", []):
                me.funcs[callee](arg(ae, x))
            if s.get("v") == "raise":
                raise Boom("Boom")
            return x
        return cap

    def classify(self, call):
        try:
            r = call()
            if isinstance(r, Falsy):
                return ["return", "Falsy"]
            return ["return", r]
        except RecursionError:
            return ["raise", "RecursionError"]
        except icontract.ViolationError:
            return ["raise", "ViolationError"]
        except FalsyError as e:
            s = str(e)
            return ["raise", s if s.startswith("falsyfactory:") else "FalsyError"]
        except Boom as e:
            s = str(e)
            for tag, inst in self.insts.items():
                if e is inst:
                    return ["raise", "inst:" + tag]
            return ["raise", s if s.startswith("factory:") else "Boom"]
        except BaseBoom:
            return ["raise", "BaseBoom"]
        except BaseException as e:  # anything else is reported verbatim
            return ["raise", "%s: %s" % (type(e).__name__, str(e)[:120])]

    def run(self):
        out = []
        sys.setrecursionlimit(400)
        for fname, x in self.p["calls"]:
            f = self.funcs[fname]
            if self.is_async:
                out.append(self.classify(lambda: asyncio.run(f(x))))
            else:
                out.append(self.classify(lambda: f(x)))
        return out


def compare(prog):
    ref = Ref(prog)
    exp = ref.run()
    real = Real(prog)
    got = real.run()
    raised = {o[1].split(":", 1)[1] for o in got if o[0] == "raise" and ":" in str(o[1]) and str(o[1]).split(":")[0] in ("factory", "falsyfactory")}
    rlog = [e for e in real.log if e[0] != "errf"]
    problems = []
    if exp != got:
        problems.append({"what": "outcome", "expected": exp, "got": got})
    if ref.log != rlog and not any("RecursionError" in str(o[1]) for o in exp):
        problems.append({"what": "evaluation order / count", "expected": ref.log[:40], "got": rlog[:40]})
    for tag in raised:
        n = sum(1 for e in real.log if e == ["errf", tag])
        if n != sum(1 for o in got if o[0] == "raise" and str(o[1]).endswith(":" + tag)):
            problems.append({"what": "error factory called %d times" % n, "tag": tag})
    return problems


# ---------------------------------------------------------------------------------------------------------------
# bounded family of programs, ordered so that the shapes named by the hints come first
# ---------------------------------------------------------------------------------------------------------------
ERRS = ["none", "cls", "falsy_cls", "inst", "factory", "falsy_factory"]


def C(v, err="none", calls=None, is_async=False):
    d = {"v": v, "err": err}
    if calls:
        d["calls"] = calls
    if is_async:
        d["async"] = True
    return d


def programs(hints=()):
    import itertools
    out = []

    def single(mode, pre, post, snaps, body, tag):
        out.append((tag, {"mode": mode, "funcs": {"f": {"pre": pre, "post": post, "snaps": snaps, "body": body}}, "calls": [["f", 1], ["f", 1]]}))

    for mode in ("sync", "async"):
        am = mode == "async"
        # violated precondition / postcondition with every error form (C01 C02 C09)
        for err in ERRS:
            single(mode, [[C(False, err)]], [], [], {}, "falsy_error pre")
            single(mode, [], [C(False, err)], [], {}, "falsy_error post")
            single(mode, [[C(True), C(False, err)]], [C(True)], [{"name": "s", "v": "x"}], {}, "falsy_error pre2")
            single(mode, [[C(False, "cls")], [C(True), C(False, err)]], [], [], {}, "groups falsy_error")
        # group logic and order (C01 C16)
        vals = [True, False]
        for a, b, c in itertools.product(vals, repeat=3):
            single(mode, [[C(a), C(b)], [C(c)]], [], [], {}, "groups")
            single(mode, [[C(a)], [C(b)], [C(c)]], [C(True)], [{"name": "s", "v": "x"}], {}, "groups")
            single(mode, [[C(a), C(b), C(c)]], [], [], {}, "groups")
            single(mode, [], [C(a), C(b), C(c)], [{"name": "s", "v": "x"}, {"name": "t", "v": "x"}], {}, "posts")
        # bodies (C02): falsy / None results, exceptions of both kinds
        for ret, rz in (("x", None), ("none", None), ("falsy", None), ("x", "exc"), ("x", "base")):
            single(mode, [[C(True)]], [C(True)], [{"name": "s", "v": "x"}], {"ret": ret, "raise": rz}, "body")
            single(mode, [], [C(False)], [], {"ret": ret, "raise": rz}, "body")
        # faults at every user-code entry point, followed by a probe call (C11)
        for v in ("raise", "raise_base"):
            single(mode, [[C(True), C(v)]], [C(True)], [], {}, "fault")
            single(mode, [[C(True)]], [C(v)], [{"name": "s", "v": "x"}], {}, "fault")
        single(mode, [[C(True)]], [C(True)], [{"name": "s", "v": "raise"}], {}, "fault")
        if am:
            single(mode, [[C(True, is_async=True), C(False, "cls", is_async=True)]], [C(True, is_async=True)], [{"name": "s", "v": "x", "async": True}], {}, "async conditions")
            single(mode, [[C(False, "falsy_cls", is_async=True)]], [], [], {}, "falsy_error async conditions")
        # re-entrancy (C10 C11): a condition that calls its own function; mutual dependence; recursion from a body
        out.append(("reentrant self", {"mode": mode, "funcs": {"f": {"pre": [[C(True, calls=[["f", "x"]], is_async=am), C("ge0", is_async=am)]], "post": [C(True, calls=[["f", "x"]], is_async=am)]}},
                                       "calls": [["f", 1], ["f", -1], ["f", 1]]}))
        out.append(("reentrant mutual", {"mode": mode, "funcs": {
            "f": {"pre": [[C(True, calls=[["g", "x"]], is_async=am), C(True, calls=[["g", "x"]], is_async=am)]]},
            "g": {"pre": [[C(True, calls=[["f", "x"]], is_async=am), C(True, calls=[["f", "x"]], is_async=am)]]}},
            "calls": [["f", 1], ["g", 1]]}))
        if not am:
            out.append(("reentrant capture", {"mode": mode, "funcs": {"f": {"post": [C(True)], "snaps": [{"name": "s", "v": "x", "calls": [["f", "x"]]}]}}, "calls": [["f", 1], ["f", 1]]}))
            out.append(("reentrant capture mutual", {"mode": mode, "funcs": {
                "f": {"post": [C(True)], "snaps": [{"name": "s", "v": "x", "calls": [["g", "x"]]}]},
                "g": {"post": [C(True)], "snaps": [{"name": "s", "v": "x", "calls": [["f", "x"]]}]}}, "calls": [["f", 1]]}))
        out.append(("body_recursion", {"mode": mode, "funcs": {"f": {"pre": [[C("ge0")]], "body": {"calls": [["f", -1, True]]}}}, "calls": [["f", 1], ["f", 0]]}))
        out.append(("body_recursion post", {"mode": mode, "funcs": {"f": {"post": [C("ge0")], "body": {"calls": [["f", -1, True]]}}}, "calls": [["f", 1]]}))
        out.append(("body_recursion other", {"mode": mode, "funcs": {"f": {"pre": [[C("ge0")]], "body": {"calls": [["g", "x-1", True]]}},
                                                                "g": {"pre": [[C("ge0")]], "body": {"calls": [["f", "x-1", True]]}}}, "calls": [["f", 3]]}))
    hints = [h for h in hints if h]
    if hints:
        out.sort(key=lambda t: min([i for i, h in enumerate(hints) if h in t[0]] + [len(hints)]))
    return out


def main(argv):
    import argparse
    ap = argparse.ArgumentParser()
    ap.add_argument("--search", action="store_true")
    ap.add_argument("--scenario")
    ap.add_argument("--hints", default="")
    ap.add_argument("--out")
    a = ap.parse_args(argv)
    assert icontract.__file__, "icontract not importable"
    res = {"icontract_file": icontract.__file__, "found": False}
    if a.scenario:
        prog = json.load(open(a.scenario))
        prog = prog.get("program", prog)
        probs = compare(prog)
        res.update(found=bool(probs), program=prog, problems=probs, tried=1)
    else:
        n = 0
        for tag, prog in programs(a.hints.split(",")):
            n += 1
            try:
                probs = compare(prog)
            except Exception as e:  # a harness failure is not a finding
                res.setdefault("harness_errors", []).append("%s: %r" % (tag, e))
                continue
            if probs:
                res.update(found=True, shape=tag, program=prog, problems=probs)
                break
        res["tried"] = n
    txt = json.dumps(res, indent=1, default=str)
    if a.out:
        open(a.out, "w").write(txt)
    print(txt if len(txt) < 3000 else txt[:3000] + "...")
    return 0


if __name__ == "__main__":
    sys.exit(main(sys.argv[1:]))

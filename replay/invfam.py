"""Replay harness, 'invariant' family: small class hierarchies with invariants, run on the real icontract of the tree
under test and compared with a reference written from the statements of C03 (C10 C11 C13 C16 for instances).

  PYTHONPATH=<tree> /venv/bin/python invfam.py --search [--hints a,b] | --scenario f.json
A program: {"classes": [cls...], "ops": [op...]}
  cls = {"name", "base": name|null, "dbc": bool, "attrs": {class-level defaults}, "invs": [{"attr": a, "on": "CALL"|"SETATTR"|"ALL", "kind": "pos"|"coro"|"calls_pub"}],
         "init": null | {"super": "first"|"last"|"none", "sets": [attr...]}, "defines": [method names], "slots": bool}
  op  = ["new", cls] | ["call", method] | ["set", attr, value] | ["poke", attr, value]   (poke bypasses __setattr__)
Invariant `pos` on attribute a means  self.a > 0 .  Methods: pub, _priv, __call__, async_pub (async def), prop (property).
"""
import asyncio
import json
import sys

import icontract

LOG = []


def _flag(on):
    E = icontract.InvariantCheckEvent
    return {"CALL": E.CALL, "SETATTR": E.SETATTR, "ALL": E.ALL}[on]


def build(prog):
    classes = {}
    for c in prog["classes"]:
        base = classes[c["base"]] if c.get("base") else (icontract.DBC if c.get("dbc", True) else object)
        ns = {}
        name = c["name"]
        if c.get("init") is not None:
            spec = c["init"]

            def __init__(self, _spec=spec, _name=name, _base=base):
                LOG.append(["body", _name + ".__init__"])
                if _spec["super"] == "first" and _base is not object:
                    _base.__init__(self)
                for a in _spec.get("sets", []):
                    object.__setattr__(self, a, 1)
                if _spec["super"] == "last" and _base is not object:
                    _base.__init__(self)
            ns["__init__"] = __init__
            if spec.get("alias"):  # the constructor is defined under another name and bound as __init__ as well
                __init__.__name__ = spec["alias"]
                ns[spec["alias"]] = __init__
        for m in c.get("defines", []):
            if m == "async_pub":
                async def async_pub(self, _n=name):
                    LOG.append(["body", _n + ".async_pub"])
                    return 7
                ns[m] = async_pub
            elif m == "prop":
                def getter(self, _n=name):
                    LOG.append(["body", _n + ".prop"])
                    return 7
                ns[m] = property(getter)
            elif m == "cm":
                def cm(cls, _n=name):
                    LOG.append(["body", _n + ".cm"])
                    return 7
                ns[m] = classmethod(cm)
            elif m == "sm":
                def sm(_n=name):
                    LOG.append(["body", _n + ".sm"])
                    return 7
                ns[m] = staticmethod(sm)
            else:
                def meth(self, _n=name, _m=m):
                    LOG.append(["body", _n + "." + _m])
                    return 7
                meth.__name__ = m
                ns[m] = meth
        ns.update(c.get("attrs", {}))  # class-level defaults (for classes without a constructor)
        if c.get("setattr"):
            def __setattr__(self, k, v, _n=name):
                LOG.append(["body", _n + ".__setattr__"])
                object.__setattr__(self, k, v)
            ns["__setattr__"] = __setattr__
        cls = type(base)(name, (base,), ns) if base is not object else type(name, (), ns)
        for i, inv in enumerate(c.get("invs", [])):  # inv0 is the decorator nearest the class
            tag = "%s.inv%d" % (name, i)
            a = inv["attr"]
            if inv.get("kind") == "coro":
                async def _c(self):
                    return False

                def cond(self, _tag=tag):
                    LOG.append(["inv", _tag])
                    return _c(self)
            elif inv.get("kind") == "calls_pub":
                def cond(self, _tag=tag, _a=a):
                    LOG.append(["inv", _tag])
                    self.pub()
                    return getattr(self, _a) > 0
            else:
                def cond(self, _tag=tag, _a=a):
                    LOG.append(["inv", _tag])
                    return getattr(self, _a) > 0
            cls = icontract.invariant(cond, check_on=_flag(inv.get("on", "CALL")))(cls)
        classes[name] = cls
    return classes


# ------------------------------------------------------------------------------------------------------------------
# reference (statement of C03): which invariants, when
# ------------------------------------------------------------------------------------------------------------------
def chain(prog, cname):
    by = {c["name"]: c for c in prog["classes"]}
    out = []
    c = by[cname]
    while c is not None:
        out.append(c)
        c = by.get(c.get("base")) if c.get("base") else None
    return list(reversed(out))  # ancestors first (C16: inherited precede own)


def all_invs(prog, cname, event):
    res = []
    for c in chain(prog, cname):
        for i, inv in enumerate(c.get("invs", [])):
            on = inv.get("on", "CALL")
            if event is None or on == "ALL" or on == event:
                res.append(("%s.inv%d" % (c["name"], i), inv))
    return res


def provider(prog, cname, member):
    for c in reversed(chain(prog, cname)):
        if member in c.get("defines", []) or (member == "__init__" and c.get("init") is not None) or (member == "__setattr__" and c.get("setattr")):
            return c
    return None


def reference(prog):
    log, outs = [], []
    state = {}
    cur = None

    def holds(inv):
        return state.get(inv["attr"], None)

    def walk(invs):
        """Evaluate in order, stop at the first that does not hold; returns None or the outcome."""
        for tag, inv in invs:
            log.append(["inv", tag])
            if inv.get("kind") == "coro":
                return ["raise", "ValueError"]
            if inv.get("kind") == "calls_pub":
                p = provider(prog, cur, "pub")
                log.append(["body", p["name"] + ".pub"])  # re-entrant: unchecked (C10)
            v = holds(inv)
            if v is None:
                return ["raise", "AttributeError"]
            if not v > 0:
                return ["raise", "ViolationError:" + tag]
        return None

    for op in prog["ops"]:
        if op[0] == "new":
            cur = op[1]
            state = {}
            for c in chain(prog, cur):
                state.update(c.get("attrs", {}))

            def run_init(c):
                log.append(["body", c["name"] + ".__init__"])
                sp = c["init"]
                parents = [p for p in chain(prog, c["name"])[:-1]]
                parent_with_init = next((p for p in reversed(parents) if p.get("init") is not None), None)
                if sp["super"] == "first" and parent_with_init is not None:
                    run_init(parent_with_init)
                for a in sp.get("sets", []):
                    state[a] = 1
                if sp["super"] == "last" and parent_with_init is not None:
                    run_init(parent_with_init)
            p = provider(prog, cur, "__init__")
            if p is not None:
                run_init(p)
            r = walk(all_invs(prog, cur, None)) if all_invs(prog, cur, None) else None
            outs.append(r or ["return", "instance"])
            if r:
                cur = None
        elif cur is None:
            outs.append(["skipped"])
        elif op[0] == "poke":
            state[op[1]] = op[2]
            outs.append(["return", None])
        elif op[0] == "set":
            p = provider(prog, cur, "__setattr__")
            invs = all_invs(prog, cur, "SETATTR")
            r = walk(invs) if invs else None
            if r is None:
                if p is not None:
                    log.append(["body", p["name"] + ".__setattr__"])
                state[op[1]] = op[2]
                r = walk(invs) if invs else None
            outs.append(r or ["return", None])
        elif op[0] == "call":
            m = op[1]
            p = provider(prog, cur, m)
            public = not (m.startswith("_") and not (m.startswith("__") and m.endswith("__"))) and m not in ("cm", "sm")
            invs = all_invs(prog, cur, "CALL") if public else []
            r = walk(invs) if invs else None
            if r is None:
                log.append(["body", p["name"] + "." + m])
                r = walk(invs) if invs else None
            outs.append(r or ["return", 7])
    return log, outs


def real(prog):
    """All operations of a program run inside ONE event loop task (one context): a marker leaked by an async call must be
    visible to the operations that follow, as it is in a long-running asyncio application."""
    return asyncio.run(_real(prog))


async def _real(prog):
    del LOG[:]
    classes = build(prog)
    outs = []
    obj = None

    def outcome(e):
        if isinstance(e, icontract.ViolationError):
            return ["raise", "ViolationError"]
        if isinstance(e, (AttributeError, ValueError, TypeError, RecursionError)):
            return ["raise", type(e).__name__]
        return ["raise", "%s: %s" % (type(e).__name__, str(e)[:100])]

    def classify(f):
        try:
            return ["return", f()]
        except BaseException as e:
            return outcome(e)

    for op in prog["ops"]:
        if op[0] == "new":
            r = classify(lambda: classes[op[1]]())
            if r[0] == "return":
                obj = r[1]
                r = ["return", "instance"]
            else:
                obj = None
            outs.append(r)
        elif obj is None:
            outs.append(["skipped"])
        elif op[0] == "poke":
            object.__setattr__(obj, op[1], op[2])
            outs.append(["return", None])
        elif op[0] == "set":
            outs.append(classify(lambda: setattr(obj, op[1], op[2])))
        elif op[0] == "call":
            m = op[1]
            if m == "async_pub":
                try:
                    outs.append(["return", await obj.async_pub()])
                except BaseException as e:
                    outs.append(outcome(e))
            elif m == "prop":
                outs.append(classify(lambda: obj.prop))
            else:
                outs.append(classify(lambda: getattr(obj, m)()))
    return list(LOG), outs


def compare(prog):
    elog, eouts = reference(prog)
    glog, gouts = real(prog)
    eouts = [[o[0], o[1].split(":")[0]] if o[0] == "raise" else o for o in eouts]
    probs = []
    if eouts != gouts:
        probs.append({"what": "outcome", "expected": eouts, "got": gouts})
    if elog != glog:
        probs.append({"what": "which invariants are evaluated, and when", "expected": elog[:40], "got": glog[:40]})
    return probs


def programs(hints=()):
    out = []
    inv = lambda a, on="CALL", kind="pos": {"attr": a, "on": on, "kind": kind}
    A = lambda **kw: dict({"name": "A", "base": None, "invs": [inv("x")], "init": {"super": "none", "sets": ["x"]}, "defines": ["pub", "_priv", "__call__", "async_pub", "prop", "cm", "sm"]}, **kw)
    ops_basic = [["new", "A"], ["call", "pub"], ["call", "_priv"], ["call", "__call__"], ["call", "prop"], ["call", "cm"], ["call", "sm"], ["call", "async_pub"],
                 ["poke", "x", -1], ["call", "_priv"], ["call", "pub"], ["call", "pub"]]
    out.append(("basic", {"classes": [A()], "ops": ops_basic}))
    out.append(("async fault", {"classes": [A()], "ops": [["new", "A"], ["poke", "x", -1], ["call", "async_pub"], ["poke", "x", 1], ["poke", "x", -1], ["call", "async_pub"], ["call", "pub"]]}))
    out.append(("sync fault", {"classes": [A()], "ops": [["new", "A"], ["poke", "x", -1], ["call", "pub"], ["call", "pub"], ["poke", "x", 1], ["call", "pub"]]}))
    for sup in ("first", "last"):
        B = {"name": "B", "base": "A", "invs": [inv("y")], "init": {"super": sup, "sets": ["y"]}, "defines": ["pub"]}
        out.append(("nested constructor " + sup, {"classes": [A(), B], "ops": [["new", "B"], ["call", "pub"], ["poke", "y", -1], ["call", "pub"]]}))
    out.append(("coroutine invariant", {"classes": [A(invs=[inv("x", kind="coro")])], "ops": [["new", "A"]]}))
    out.append(("reentrant invariant", {"classes": [A(invs=[inv("x", kind="calls_pub")])], "ops": [["new", "A"], ["call", "pub"]]}))
    for order in (["CALL", "SETATTR"], ["SETATTR", "CALL"], ["ALL"], ["SETATTR"]):
        base = A(invs=[inv("x", on=o) for o in order], setattr=True)
        sub = {"name": "B", "base": "A", "invs": [], "init": None, "defines": ["pub"], "setattr": False}
        out.append(("check_on inheritance " + "+".join(order), {"classes": [base, sub], "ops": [["new", "B"], ["call", "pub"], ["set", "x", 5], ["poke", "x", -1], ["call", "pub"], ["poke", "x", 1], ["set", "x", -1]]}))
        out.append(("check_on " + "+".join(order), {"classes": [base], "ops": [["new", "A"], ["call", "pub"], ["set", "x", 5], ["set", "x", -1]]}))
    # classes without a constructor of their own: every invariant, whatever its check_on, is evaluated when the instance is made
    for order in (["CALL"], ["SETATTR"], ["ALL"], ["SETATTR", "CALL"]):
        for x0 in (1, -1):
            noinit = A(invs=[inv("x", on=o) for o in order], init=None, attrs={"x": x0}, setattr=True)
            out.append(("no constructor %s x=%d" % ("+".join(order), x0), {"classes": [noinit], "ops": [["new", "A"], ["call", "pub"], ["set", "x", 2], ["set", "x", -1]]}))
            sub = {"name": "B", "base": "A", "invs": [], "init": None, "defines": ["pub"], "setattr": False}
            out.append(("no constructor inherited %s x=%d" % ("+".join(order), x0), {"classes": [noinit, sub], "ops": [["new", "B"], ["call", "pub"], ["set", "x", -1]]}))
    for alias in ("_setup", "setup"):
        out.append(("constructor defined under another name (%s)" % alias, {"classes": [A(init={"super": "none", "sets": [], "alias": alias}, attrs={"x": -1})],
                                                                          "ops": [["new", "A"], ["call", "pub"]]}))
        out.append(("constructor defined under another name (%s), valid object" % alias, {"classes": [A(init={"super": "none", "sets": ["x"], "alias": alias})],
                                                                                        "ops": [["new", "A"], ["call", "pub"], ["poke", "x", -1], ["call", "_priv"], ["call", "pub"]]}))
    out.append(("two invariants order", {"classes": [A(invs=[inv("x"), inv("z")], init={"super": "none", "sets": ["x", "z"]})],
                                         "ops": [["new", "A"], ["poke", "x", -1], ["poke", "z", -1], ["call", "pub"]]}))
    B2 = {"name": "B", "base": "A", "invs": [inv("y")], "init": {"super": "first", "sets": ["y"]}, "defines": []}
    out.append(("inherited order", {"classes": [A(), B2], "ops": [["new", "B"], ["poke", "x", -1], ["poke", "y", -1], ["call", "pub"]]}))
    # member selection (bounded stand-in for add_invariant_checks): overriding subclasses, properties, decorator orders
    for order in (["CALL"], ["ALL"], ["CALL", "SETATTR"], ["SETATTR", "CALL"], ["SETATTR"]):
        base = A(invs=[inv("x", on=o) for o in order], setattr=True)
        sub = {"name": "B", "base": "A", "invs": [], "init": None, "defines": ["pub", "_priv", "__call__", "prop", "cm", "sm", "async_pub"], "setattr": True}
        ops = [["new", "B"], ["call", "pub"], ["call", "_priv"], ["call", "__call__"], ["call", "prop"], ["call", "cm"], ["call", "sm"], ["call", "async_pub"],
               ["set", "x", 3], ["poke", "x", -1], ["call", "_priv"], ["call", "prop"]]
        out.append(("member selection override " + "+".join(order), {"classes": [base, sub], "ops": ops}))
        sub2 = dict(sub, invs=[inv("y", on=order[0])], init={"super": "first", "sets": ["y"]})
        out.append(("member selection sub invariant " + "+".join(order), {"classes": [base, sub2], "ops": ops + [["poke", "x", 1], ["poke", "y", -1], ["call", "pub"]]}))
        third = {"name": "C", "base": "B", "invs": [], "init": None, "defines": ["pub"], "setattr": False}
        out.append(("member selection three levels " + "+".join(order), {"classes": [base, sub, third], "ops": [["new", "C"], ["call", "pub"], ["call", "__call__"], ["set", "x", 2], ["poke", "x", -1], ["call", "pub"]]}))
    hints = [h for h in hints if h]
    if hints:
        out.sort(key=lambda t: min([i for i, h in enumerate(hints) if h in t[0]] + [len(hints)]))
    return out


def main(argv):
    import argparse
    ap = argparse.ArgumentParser()
    ap.add_argument("--search", action="store_true")
    ap.add_argument("--scenario")
    ap.add_argument("--hints", default="")
    ap.add_argument("--out")
    ap.add_argument("--all", action="store_true")
    a = ap.parse_args(argv)
    res = {"icontract_file": icontract.__file__, "found": False}
    if a.scenario:
        prog = json.load(open(a.scenario))
        prog = prog.get("program", prog)
        probs = compare(prog)
        res.update(found=bool(probs), program=prog, problems=probs, tried=1)
    else:
        n = 0
        for tag, prog in programs(a.hints.split(",")):
            n += 1
            try:
                probs = compare(prog)
            except Exception as e:
                res.setdefault("harness_errors", []).append("%s: %r" % (tag, e))
                continue
            if probs:
                if a.all:
                    res.setdefault("all", []).append(tag)
                    continue
                res.update(found=True, shape=tag, program=prog, problems=probs)
                break
        res["tried"] = n
    txt = json.dumps(res, indent=1, default=str)
    if a.out:
        open(a.out, "w").write(txt)
    print(txt if len(txt) < 2500 else txt[:2500] + "...")
    return 0


if __name__ == "__main__":
    sys.exit(main(sys.argv[1:]))

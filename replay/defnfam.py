"""Replay harness, 'definition' family (C08 C09 C14 C15 C19): what decorating does, case by case, against expectations
written from the property statements.   PYTHONPATH=<tree> /venv/bin/python defnfam.py --search | --scenario f.json
A scenario is {"case": name}; the cases are listed in CASES."""
import asyncio
import functools
import inspect
import json
import sys

import icontract
import icontract._checkers


def plus1(f):
    @functools.wraps(f)
    def w(*a, **k):
        return f(*a, **k) + 1
    return w


def expect_raises(exc, fn):
    try:
        fn()
    except exc:
        return None
    except BaseException as e:
        return "expected %s, got %s: %s" % (exc.__name__, type(e).__name__, str(e)[:100])
    return "expected %s, nothing was raised" % exc.__name__


def case_foreign_decorator_between_requires():
    @icontract.require(lambda x: x > 0)
    @plus1
    @icontract.require(lambda x: x < 100)
    def f(x):
        return x
    return None if f(1) == 2 else "a foreign decorator between two contract decorators was dropped: f(1) == %r, expected 2" % f(1)


def case_foreign_decorator_between_ensures():
    @icontract.ensure(lambda result: result > 0)
    @plus1
    @icontract.ensure(lambda result: result < 100)
    def f(x):
        return x
    return None if f(1) == 2 else "a foreign decorator between two contract decorators was dropped: f(1) == %r, expected 2" % f(1)


def case_snapshot_after_require_only():
    def go():
        @icontract.snapshot(lambda x: x)
        @icontract.require(lambda x: x > 0)
        def f(x):
            return x
    return expect_raises(ValueError, go)


def case_snapshot_without_any_contract():
    def go():
        @icontract.snapshot(lambda x: x)
        def f(x):
            return x
    return expect_raises(ValueError, go)


def case_duplicate_snapshot_names():
    def go():
        @icontract.snapshot(lambda x: x, name="a")
        @icontract.snapshot(lambda x: x, name="a")
        @icontract.ensure(lambda OLD: True)
        def f(x):
            return x
    return expect_raises(ValueError, go)


def case_unnamed_snapshot_arity():
    r = expect_raises(ValueError, lambda: icontract.snapshot(lambda: 1))
    return r or expect_raises(ValueError, lambda: icontract.snapshot(lambda a, b: 1))


def _bad_errors(deco, **kw):
    class CallableObject:
        def __call__(self):
            return ValueError("x")
    for bad in (int, 42, "text", object(), CallableObject(), functools.partial(ValueError, "x"), len):
        r = expect_raises(ValueError, lambda: deco(lambda: True, error=bad, **kw))
        if r:
            return "%s(error=%r): %s" % (deco.__name__, bad, r)
    for good in (None, ValueError, ValueError("x"), lambda: ValueError("y")):
        try:
            deco(lambda: True, error=good, **kw)
        except BaseException as e:
            return "%s(error=%r) rejected: %r" % (deco.__name__, good, e)
    return None


def case_error_argument_validation():
    for d in (icontract.require, icontract.ensure, icontract.invariant):
        r = _bad_errors(d)
        if r:
            return r
    return None


def case_disabled_decorators_are_absent():
    calls = []

    def cond(x):
        calls.append(x)
        return False

    def f(x):
        return x
    before = dict(vars(f))
    for d in (icontract.require(cond, enabled=False), icontract.ensure(cond, enabled=False), icontract.snapshot(cond, enabled=False)):
        g = d(f)
        if g is not f:
            return "%s(enabled=False) returned another object" % type(d).__name__
    if dict(vars(f)) != before:
        return "a disabled decorator added attributes: %r" % sorted(set(vars(f)) - set(before))
    f(1)

    class A:
        pass
    if icontract.invariant(lambda self: False, enabled=False)(A) is not A or "__invariants__" in vars(A):
        return "invariant(enabled=False) touched the class"
    # a disabled decorator does not even validate its arguments
    try:
        icontract.require(cond, enabled=False, error=42)
    except BaseException as e:
        return "disabled decorator inspected its error argument: %r" % e
    return "a disabled condition was called" if calls else None


def case_reserved_parameter_names():
    def go(name):
        src = "def f(%s):\n    return 1\n" % name
        env = {}
        exec(src, env)
        return icontract.require(lambda: True)(env["f"])
    r = expect_raises(TypeError, lambda: go("_ARGS")) or expect_raises(TypeError, lambda: go("_KWARGS"))
    if r:
        return r

    @icontract.ensure(lambda result: True)
    def g(result):
        return result

    @icontract.ensure(lambda result: True)
    def h(OLD):
        return OLD

    @icontract.require(lambda x: True)
    def k(x, **kw):
        return x

    # `result` and `OLD` are reserved only where postconditions exist: a precondition-only function may use the names
    @icontract.require(lambda result: result > 0)
    def p(result, OLD=3):
        return result + OLD
    try:
        if p(1) != 4 or k(1, result=2, OLD=3) != 1:
            return "a precondition-only function using the names result/OLD misbehaves"
    except BaseException as e:
        return "a precondition-only function with a parameter named result/OLD was rejected: %r" % (e,)
    return (expect_raises(TypeError, lambda: g(1)) or expect_raises(TypeError, lambda: h(1))
            or expect_raises(TypeError, lambda: k(1, _ARGS=2)) or expect_raises(TypeError, lambda: k(1, _KWARGS=2)))


def case_invariant_condition_misuse():
    async def acond(self):
        return True
    return (expect_raises(ValueError, lambda: icontract.invariant(lambda self, other: True))
            or expect_raises(ValueError, lambda: icontract.invariant(lambda other: True))
            or expect_raises(ValueError, lambda: icontract.invariant(acond)))


def case_single_checker_and_metadata():
    def f(x: int, y: int = 2) -> int:
        """doc of f"""
        return x + y
    g = icontract.ensure(lambda result: True)(plus1(icontract.require(lambda x: True)(icontract.require(lambda y: True)(f))))
    k = icontract._checkers.find_checker(g)
    if k is None or len(k.__preconditions__) != 1 or len(k.__preconditions__[0]) != 2 or len(k.__postconditions__) != 1:
        return "stacked decorators do not share a single checker with all the contracts"
    n = 0
    w = g
    while hasattr(w, "__wrapped__"):
        if hasattr(w, "__preconditions__") and "__preconditions__" in vars(w) and getattr(w, "__wrapped__") is f:
            n += 1
        w = w.__wrapped__
    if w is not f:
        return "the original is not reachable through __wrapped__"
    for a in ("__name__", "__qualname__", "__doc__", "__module__", "__annotations__"):
        if getattr(g, a) != getattr(f, a):
            return "%s not preserved" % a
    if str(inspect.signature(g)) != str(inspect.signature(f)):
        return "signature not preserved"

    async def af(x):
        return x
    if not inspect.iscoroutinefunction(icontract.require(lambda x: True)(af)):
        return "coroutine-ness not preserved"
    return None if g(1) == 4 else "result changed: %r" % g(1)


def case_SLOW_follows_the_environment():
    import os
    import subprocess
    prog = "import icontract, sys; sys.stdout.write(str(icontract.SLOW))"
    for flags, dbg in (([], True), (["-O"], False), (["-OO"], False)):
        for envval, nonempty in ((None, False), ("", False), ("1", True), ("yes", True)):
            env = dict(os.environ)
            env.pop("ICONTRACT_SLOW", None)
            if envval is not None:
                env["ICONTRACT_SLOW"] = envval
            out = subprocess.run([sys.executable] + flags + ["-c", prog], env=env, capture_output=True, text=True).stdout.strip()
            if out != str(dbg and nonempty):
                return "icontract.SLOW is %s with flags %r and ICONTRACT_SLOW=%r, expected %s" % (out, flags, envval, dbg and nonempty)
    return None


def case_KNOWN_subclass_adds_a_constructor_below_an_invariant_class_without_init():
    @icontract.invariant(lambda self: True)
    class A:
        pass

    class B(A):
        def __init__(self, v):
            self.v = v
    try:
        return None if B(1).v == 1 else "wrong instance"
    except TypeError as e:
        return "a subclass that adds __init__(self, v) can not be instantiated any more: %s" % e


def case_stacked_decorator_order():
    """C16: stacked decorators are evaluated from the one nearest the function outwards, stopping at the first falsy one,
    whose error is raised (1..5 decorators x every truth assignment, preconditions and postconditions)."""
    import itertools
    for kind in ("require", "ensure"):
        for n in range(1, 6):
            for truth in itertools.product([True, False], repeat=n):
                log = []
                errs = [type("E%d" % i, (Exception,), {}) for i in range(n)]

                def mk(i):  # named functions: a lambda outside a decorator line has no source text for the message
                    if kind == "require":
                        def cond(x):
                            log.append(i)
                            return truth[i]
                    else:
                        def cond(result):
                            log.append(i)
                            return truth[i]
                    return cond

                def f(x):
                    return x
                g = f
                for i in range(n):  # i == 0 is the decorator nearest the function
                    g = getattr(icontract, kind)(mk(i), error=errs[i])(g)
                first = truth.index(False) if False in truth else None
                want_log = list(range(n)) if first is None else list(range(first + 1))
                try:
                    g(1)
                    got = None
                except Exception as e:
                    got = type(e)
                want = None if first is None else errs[first]
                if log != want_log or got is not want:
                    return "%d stacked @%s with truth values %s (nearest first): evaluated %s, raised %s; expected %s, %s" % (
                        n, kind, list(truth), log, getattr(got, "__name__", None), want_log, getattr(want, "__name__", None))
    return None


CASES = {n[5:]: f for n, f in sorted(globals().items()) if n.startswith("case_")}


def main(argv):
    import argparse
    ap = argparse.ArgumentParser()
    ap.add_argument("--search", action="store_true")
    ap.add_argument("--scenario")
    ap.add_argument("--hints", default="")
    ap.add_argument("--out")
    ap.add_argument("--all", action="store_true")
    ap.add_argument("--exclude", default="")
    ap.add_argument("--only", default="")
    a = ap.parse_args(argv)
    res = {"icontract_file": icontract.__file__, "found": False}
    names = [n for n in CASES if n not in a.exclude.split("|")]
    if a.only:
        names = [a.only]
    if a.scenario:
        scn = json.load(open(a.scenario))
        names = [scn.get("program", scn)["case"]]
    hints = [h for h in a.hints.split(",") if h]
    names.sort(key=lambda n: min([i for i, h in enumerate(hints) if h in n] + [len(hints)]))
    n = 0
    for name in names:
        n += 1
        try:
            r = CASES[name]()
        except BaseException as e:
            r = "unexpected %s: %s" % (type(e).__name__, str(e)[:200])
        if r:
            if a.all:
                res.setdefault("all", []).append([name, r])
                continue
            res.update(found=True, program={"case": name}, problems=[{"what": r}])
            break
    res["tried"] = n
    txt = json.dumps(res, indent=1, default=str)
    if a.out:
        open(a.out, "w").write(txt)
    print(txt[:2500])
    return 0


if __name__ == "__main__":
    sys.exit(main(sys.argv[1:]))

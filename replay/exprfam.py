"""Replay harness, 'expression' family (C06 C07 C20): violated lambda conditions; the generated message is compared with
CPython's own evaluation of the same expression under an instrumenting AST transformer.

  PYTHONPATH=<tree> /venv/bin/python exprfam.py --search | --scenario f.json
scenario = {"cond": "<lambda source>", "args": {name: python-literal-source}, "globals": {...}}
Expectations (from the statements): the call raises ViolationError (never RuntimeError/SyntaxError/...); every
`<expr> was <value>` line names a sub-expression whose value -- as CPython computed it in the real evaluation -- has that
repr; every argument and every name/attribute/call/subscript CPython evaluated outside comprehension scopes is listed;
nothing CPython skipped is evaluated while the message is built (guards raise if touched); the message is the same for a
permuted keyword order and on repetition."""
import ast
import json
import os
import sys
import tempfile
import textwrap

import icontract

RECORD = {}
TOUCHED = []


class Guard:
    """A value whose use outside the original evaluation is an error (operand that Python's short-circuit skipped)."""

    def __init__(self, name):
        self.name = name

    def _hit(self, *a, **k):
        TOUCHED.append(self.name)
        raise RuntimeError("guarded operand %s was evaluated" % self.name)

    __getattr__ = lambda self, n: self._hit() if not n.startswith("__") else object.__getattribute__(self, n)
    __getitem__ = __gt__ = __lt__ = __call__ = __bool__ = __add__ = _hit

    def __repr__(self):
        return "<Guard %s>" % self.name


def boom(tag="boom"):
    TOUCHED.append(tag)
    raise RuntimeError("boom() was called")


def ident(x):
    return x


class Rec(ast.NodeTransformer):
    """Wrap every Name/Attribute/Call/Subscript/comprehension outside comprehension scopes: __rec(<text>, <expr>)."""

    def __init__(self, src):
        self.src = src
        self.depth = 0

    def _wrap(self, node, new):
        text = ast.get_source_segment(self.src, node)
        return ast.copy_location(ast.Call(func=ast.Name(id="__rec", ctx=ast.Load()), args=[ast.Constant(value=text), new], keywords=[]), node)

    def generic_visit(self, node):
        return super().generic_visit(node)

    def _comp(self, node):
        self.depth += 1
        new = self.generic_visit(node)
        self.depth -= 1
        if self.depth == 0 and not isinstance(node, ast.GeneratorExp):
            return self._wrap(node, new)
        return new

    visit_ListComp = visit_SetComp = visit_DictComp = visit_GeneratorExp = _comp

    def visit_Lambda(self, node):
        return node

    def _leaf(self, node):
        if not isinstance(getattr(node, "ctx", ast.Load()), ast.Load):
            return node
        new = self.generic_visit(node)
        return self._wrap(node, new) if self.depth == 0 else new

    visit_Name = visit_Attribute = visit_Call = visit_Subscript = _leaf

    def visit_JoinedStr(self, node):
        for v in node.values:
            if isinstance(v, ast.FormattedValue):
                v.value = self.visit(v.value)  # the format spec is part of the literal, not a reported sub-expression
        return self._wrap(node, node) if self.depth == 0 else node

    def visit_NamedExpr(self, node):
        node.value = self.visit(node.value)
        if self.depth == 0:  # the target is reported under its own name with the value bound to it
            node.value = ast.copy_location(ast.Call(func=ast.Name(id="__rec", ctx=ast.Load()), args=[ast.Constant(value=node.target.id), node.value], keywords=[]), node)
        return node


_TMP = []


def _tmpdir():
    """One scratch directory per process (the condition's source must be a real file); removed at exit."""
    if not _TMP:
        import atexit, shutil
        _TMP.append(tempfile.mkdtemp(prefix="exprfam"))
        atexit.register(shutil.rmtree, _TMP[0], True)
    return _TMP[0]


def reference(cond_src, kwargs, glob):
    RECORD.clear()
    tree = ast.parse(cond_src, mode="eval")
    lam = tree.body
    body = Rec(cond_src).visit(lam.body)
    ast.fix_missing_locations(tree)

    def rec(text, v):
        RECORD.setdefault(text, v)
        return v
    env = dict(glob)
    env["__rec"] = rec
    expr = ast.Expression(ast.Lambda(args=lam.args, body=body))
    ast.fix_missing_locations(expr)
    f = eval(compile(expr, "<ref>", "eval"), env)
    names = [a.arg for a in lam.args.args]
    val = f(**{n: kwargs[n] for n in names})
    return val, dict(RECORD)


def run_source(scn):
    """A scenario given as a whole module source (layout matters): {"source": ..., "call": "f(...)"}."""
    d = _tmpdir()
    path = os.path.join(d, "layout_%d.py" % abs(hash(scn["source"])))
    open(path, "w").write(scn["source"])
    env = {"Guard": Guard, "ident": ident}
    try:
        exec(compile(scn["source"], path, "exec"), env)
        eval(scn["call"], env)
        return [{"what": "no error was raised for a falsy condition"}]
    except icontract.ViolationError as e:
        if scn.get("text") and scn["text"] not in str(e):
            return [{"what": "the message does not carry the condition text", "message": str(e)[:300]}]
        return []
    except BaseException as e:
        return [{"what": "the violation surfaced as %s instead of ViolationError" % type(e).__name__, "detail": str(e)[:300]}]


def run(scn):
    if "source" in scn:
        return run_source(scn)
    glob = {"boom": boom, "ident": ident, "Guard": Guard, "len": len}
    glob.update({k: eval(v, dict(glob)) for k, v in scn.get("globals", {}).items()})
    kwargs = {k: eval(v, dict(glob)) for k, v in scn["args"].items()}
    cond_src = scn["cond"]
    params = ", ".join(kwargs)
    src = "import icontract\n@icontract.require(%s)\ndef f(%s):\n    return 1\n" % (cond_src, params)
    d = _tmpdir()
    path = os.path.join(d, "m_%d.py" % abs(hash(src)))
    open(path, "w").write(src)
    env = dict(glob)
    exec(compile(src, path, "exec"), env)
    f = env["f"]
    del TOUCHED[:]
    val, rec = reference(cond_src, kwargs, glob)
    if val:
        return None  # the condition holds: not a violation scenario
    del TOUCHED[:]
    problems = []
    msgs = []
    orders = [list(kwargs), list(reversed(list(kwargs))), list(kwargs)]
    for order in orders:
        try:
            f(**{k: kwargs[k] for k in order})
            problems.append({"what": "no error was raised for a falsy condition"})
            return problems
        except icontract.ViolationError as e:
            msgs.append(str(e))
        except BaseException as e:
            problems.append({"what": "the violation surfaced as %s instead of ViolationError" % type(e).__name__, "detail": str(e)[:300], "cause": repr(e.__cause__)[:200]})
            return problems
    if TOUCHED:
        problems.append({"what": "building the message evaluated operands Python skipped", "touched": TOUCHED[:5]})
    if len(set(msgs)) != 1:
        problems.append({"what": "the message depends on keyword order / repetition", "messages": msgs})
    msg = msgs[0]
    lines = msg.split("\n")
    head = lines[1] if lines[0].startswith("File ") else lines[0]
    text = ast.get_source_segment(cond_src, ast.parse(cond_src, mode="eval").body.body)
    if not head.startswith(text):
        problems.append({"what": "the message does not carry the condition text", "expected_prefix": text, "got": head[:200]})
    shown = {}
    rest = msg[msg.index(text) + len(text):] if text in msg else ""
    for ln in rest.lstrip(":").split("\n"):
        ln = ln.strip()
        if " was " in ln and not ln.startswith("e.g."):
            k, v = ln.split(" was ", 1)
            shown[k.lstrip(": ")] = v
    a_repr = icontract.aRepr
    if scn.get("example") is not None:
        # C06/C20: the example of a failing all(<generator>) is the first falsifying assignment, rendered through a_repr
        ex_lines, on = {}, False
        for ln in rest.split("\n"):
            if ln.rstrip().endswith("was False, e.g., with"):
                on = True
            elif on and ln.startswith("  ") and " = " in ln:
                k, v = ln.strip().split(" = ", 1)
                ex_lines[k] = v
            elif " was " in ln:
                on = False
        want = {k: a_repr.repr(eval(v, dict(glob))) for k, v in scn["example"].items()}
        if ex_lines != want:
            problems.append({"what": "the example of a failing all() is not the first falsifying assignment rendered through a_repr",
                             "shown": {k: v[:200] for k, v in ex_lines.items()}, "expected": want})
    for k, v in shown.items():
        if k in rec:
            if v.startswith("False, e.g., with"):
                continue
            if a_repr.repr(rec[k]) != v:
                problems.append({"what": "a shown value is not the value Python computed", "expression": k, "shown": v, "python": a_repr.repr(rec[k])})
        elif k in kwargs:
            if a_repr.repr(kwargs[k]) != v:
                problems.append({"what": "an argument is shown with a wrong value", "argument": k, "shown": v})
        else:
            problems.append({"what": "a line names something Python did not evaluate", "expression": k})
    import inspect
    for k, v in rec.items():
        representable = not (inspect.isclass(v) or inspect.isfunction(v) or inspect.ismethod(v) or inspect.ismodule(v) or inspect.isbuiltin(v))
        if representable and k not in shown and k not in ("boom", "ident", "len") and not scn.get("incomplete_ok"):
            problems.append({"what": "an evaluated sub-expression is missing from the message", "expression": k, "python": a_repr.repr(v)})
    for k, v in kwargs.items():
        if k not in shown:
            problems.append({"what": "an argument is not listed", "argument": k})
    if sorted(shown) != list(shown):
        problems.append({"what": "value lines are not sorted", "order": list(shown)})
    return problems


def scenarios():
    S = lambda cond, args, **kw: dict(cond=cond, args=args, **kw)
    yield "and short-circuit", S("lambda xs: xs and xs[0] > 0", {"xs": "[]"})
    yield "or short-circuit", S("lambda x, y: bool(x or y) and False", {"x": "0", "y": "0"})
    yield "or value", S("lambda x, y: (x or y) > 5", {"x": "0", "y": "3"})
    yield "chained comparison short-circuit", S("lambda n: 0 < n < 10 // n", {"n": "0"})
    yield "chained comparison", S("lambda a, b, c: a < b < c", {"a": "1", "b": "5", "c": "3"})
    yield "and guard", S("lambda x, g: x > 0 and g.attr", {"x": "0", "g": "Guard('g')"})
    yield "or guard", S("lambda x, g: not (x == 0 or g.attr)", {"x": "0", "g": "Guard('g')"})
    yield "ifexp guard", S("lambda x, g: (x if x > 0 else 0) > 5 or (g.attr if x > 0 else False)", {"x": "0", "g": "Guard('g')"})
    yield "name bound to None shadows a builtin", S("lambda id: id is not None", {"id": "None"})
    yield "name bound to None shadows a printable builtin", S("lambda credits: credits is not None", {"credits": "None"})
    yield "name bound to None", S("lambda x: x is not None", {"x": "None"})
    yield "dict unpacking", S("lambda x: len({**x, 'b': 2}) > 5", {"x": "{'a': 1}"})
    yield "star arguments", S("lambda x: max(*x) > 5", {"x": "[1, 2]"})
    yield "double star arguments", S("lambda d: len(dict(**d)) > 5", {"d": "{'a': 1}"})
    yield "double star in all", S("lambda ds: all(len(dict(**d)) > 5 for d in ds)", {"ds": "[{'a': 1}]"}, incomplete_ok=True)
    yield "attributes and calls", S("lambda p: p.real + abs(p.imag) > 100", {"p": "complex(1, -2)"})
    yield "subscripts and slices", S("lambda xs, i: xs[i] + sum(xs[1:3]) > 100", {"xs": "[1, 2, 3, 4]", "i": "2"})
    yield "comparison returning None", S("lambda a, b: (a < b < b) is True", {"a": "ident(type('N', (), {'__lt__': lambda s, o: None})())", "b": "3"}, incomplete_ok=True)
    yield "fstring", S("lambda x: f'{x!r:>4}' == 'nope'", {"x": "7"})
    yield "walrus", S("lambda x: (y := x + 1) > 100 and y > 0", {"x": "1"})
    yield "list comprehension", S("lambda xs: sum([x * 2 for x in xs if x > 1]) > 100", {"xs": "[1, 2, 3]"})
    yield "all with generator", S("lambda xs, lim: all(x < lim for x in xs)", {"xs": "[1, 5, 2, 7]", "lim": "4"}, example={"x": "5"})
    yield "all example large value bounded", S("lambda rows: all(len(r) < 3 for r in rows)", {"rows": "[[1], list(range(1000)), [2]]"}, example={"r": "list(range(1000))"})
    yield "all example two loop variables", S("lambda ps: all(a < b for a, b in ps)", {"ps": "[(1, 2), (4, 3), (9, 0)]"}, example={"a": "4", "b": "3"})
    yield "chained comparison inside a call", S("lambda lo, x, hi: ident(lo <= x < hi) or x == -1", {"lo": "0", "x": "7", "hi": "5"})
    yield "chained comparison of four operands inside or", S("lambda a, b, c, d: (a < b <= c < d) or ident(a) > 100", {"a": "1", "b": "9", "c": "9", "d": "2"})
    yield "global named like a builtin", S("lambda x: x > max", {"x": "1"}, globals={"max": "7"})
    yield "global named like a builtin used as a value and a builtin called", S("lambda xs: len(xs) > format", {"xs": "[1]"}, globals={"format": "5"})
    yield "nested all", S("lambda rows: all(all(c > 0 for c in r) for r in rows)", {"rows": "[[1, 2], [3, -1]]"}, incomplete_ok=True)
    yield "set and tuple displays", S("lambda a, b: len({a, b}) + len((a, b, a)) > 100", {"a": "1", "b": "2"})
    yield "many arguments sorted", S("lambda zeta, alpha, mid: zeta + alpha + mid > 100", {"zeta": "1", "alpha": "2", "mid": "3"})
    yield "large value bounded", S("lambda xs: len(xs) < 3", {"xs": "list(range(1000))"})
    yield "unary and binary operators", S("lambda a, b: -a + (~b) * 2 ** 2 - (a // 1) % 7 > 1000", {"a": "3", "b": "4"})
    yield "KNOWN comprehension body with an empty iterable", S("lambda xs, g: len([g.attr for x in xs]) > 5", {"xs": "[]", "g": "Guard('g')"})
    yield "KNOWN decorator continuation line starting with @", dict(
        source="import icontract\nclass M:\n    def __init__(self, v):\n        self.v = v\n    def __matmul__(self, o):\n        return M(self.v * o.v)\n    def __gt__(self, o):\n        return self.v > o\n"
               "@icontract.require(lambda x, y:\n    x\n    @y > 0)\ndef f(x, y):\n    return 1\n", call="f(M(-1), M(2))", text="@y > 0")
    yield "layout: keyword form, comments, neighbours", dict(
        source="import icontract\n@icontract.ensure(lambda result: True)\n@icontract.require(  # a comment\n    description='positive',\n    condition=lambda x:\n        x > 0  # trailing\n)\n@icontract.require(lambda x: x < 100)\ndef f(x):\n    return 1\n",
        call="f(-1)", text="x > 0")
    yield "layout: nested in a class", dict(
        source="import icontract\nclass K:\n    class Inner:\n        @icontract.require(\n            lambda self, x:\n            x > 0)\n        def m(self, x):\n            return 1\n", call="K.Inner().m(-1)", text="x > 0")
    yield "is not / in", S("lambda x, xs: x in xs and x is not None and x not in xs", {"x": "2", "xs": "[1, 2]"})


def main(argv):
    import argparse
    ap = argparse.ArgumentParser()
    ap.add_argument("--search", action="store_true")
    ap.add_argument("--scenario")
    ap.add_argument("--hints", default="")
    ap.add_argument("--out")
    ap.add_argument("--all", action="store_true")
    ap.add_argument("--exclude", default="")
    ap.add_argument("--only", default="")
    a = ap.parse_args(argv)
    res = {"icontract_file": icontract.__file__, "found": False}
    items = list(scenarios())
    if a.only:
        items = [t for t in items if t[0] == a.only]
    ex = [x for x in a.exclude.split("|") if x]
    items = [t for t in items if t[0] not in ex]
    if a.scenario:
        scn = json.load(open(a.scenario))
        items = [("given", scn.get("program", scn))]
    hints = [h for h in a.hints.split(",") if h]
    items.sort(key=lambda t: min([i for i, h in enumerate(hints) if h in t[0]] + [len(hints)]))
    n = 0
    for tag, scn in items:
        n += 1
        try:
            probs = run(scn)
        except Exception as e:
            res.setdefault("harness_errors", []).append("%s: %r" % (tag, e))
            continue
        if probs:
            if a.all:
                res.setdefault("all", []).append([tag, probs[0]["what"]])
                continue
            res.update(found=True, shape=tag, program=scn, problems=probs[:4])
            break
    res["tried"] = n
    txt = json.dumps(res, indent=1, default=str)
    if a.out:
        open(a.out, "w").write(txt)
    print(txt[:3000])
    return 0


if __name__ == "__main__":
    sys.exit(main(sys.argv[1:]))

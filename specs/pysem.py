"""Trusted specification of Python's expression evaluation (language reference ch. 6), for ONE evaluation of a condition:
what each node evaluates to, which nodes are evaluated at all (laziness), and which primitive operations Python performs.
Written from the language reference; validated (thorough tier) by the expression replay family against CPython.

  VAL(n)   the value node n has in the original evaluation          EV(n)  Python evaluated n (to completion)
  operations are opaque pure functions of their operands (the statement's premise: side-effect-free conditions);
  DID_x(...) says Python itself performed that operation on those operands in the original evaluation -- the
  precondition of performing it again (C07: nothing is evaluated that Python's short-circuit evaluation skipped).
"""
import z3

from pyvc.base import I, B, SeqI, ArrIB, ArrII, NONE, TRUE, FALSE, clsref, objref, ISINST, qforall
from .lib import REG, S, lst, attr, dom, val

VAL = z3.Function("py_value", I, I)
EV = z3.Function("py_evaluated", I, B)
TRUTHY = z3.Function("py_truth", I, B)
DID_TRUTH = z3.Function("py_did_truth", I, B)
BINOP = z3.Function("py_binop", I, I, I, I)  # (operator class, left, right)
DID_BINOP = z3.Function("py_did_binop", I, I, I, B)
UNOP = z3.Function("py_unop", I, I, I)
DID_UNOP = z3.Function("py_did_unop", I, I, B)
CMP = z3.Function("py_compare", I, I, I, I)
DID_CMP = z3.Function("py_did_compare", I, I, I, B)
GETATTR = z3.Function("py_getattr", I, I, I)
DID_GETATTR = z3.Function("py_did_getattr", I, I, B)
GETITEM = z3.Function("py_getitem", I, I, I)
DID_GETITEM = z3.Function("py_did_getitem", I, I, B)
MKSLICE = z3.Function("py_slice", I, I, I, I)
CALLF = z3.Function("py_call", I, SeqI, ArrIB, ArrII, I)  # (callable, positional values, keyword domain, keyword values)
DID_CALL = z3.Function("py_did_call", I, SeqI, ArrIB, ArrII, B)
BUILTIN = z3.Function("py_builtin", I, I)  # name -> builtins.<name>
HAS_BUILTIN = z3.Function("py_has_builtin", I, B)
MKLIST = z3.Function("py_list_of", SeqI, I)
MKTUPLE = z3.Function("py_tuple_of", SeqI, I)
PLACEHOLDER = objref("PLACEHOLDER")
from pyvc.base import V  # noqa: E402
REG.globals["PLACEHOLDER"] = V("ref", PLACEHOLDER)
REG.external("Python expression semantics", "language reference ch. 6: evaluation order, short-circuit of and/or/chained comparisons/conditional "
             "expressions, operators as opaque deterministic operations (premise of C06/C07: side-effect-free conditions)")


def isn(n, cls):
    return ISINST(n, clsref("ast." + cls))


BIN_OPS = ["Add", "Sub", "Mult", "Div", "FloorDiv", "Mod", "Pow", "LShift", "RShift", "BitOr", "BitXor", "BitAnd", "MatMult"]
UN_OPS = ["UAdd", "USub", "Not", "Invert"]
CMP_OPS = ["Eq", "NotEq", "Lt", "LtE", "Gt", "GtE", "Is", "IsNot", "In", "NotIn"]


def op_class(H, opnode, names):
    """The operator *class* of an operator node (ast.Add() instances carry no data): a ghost function of the node."""
    return z3.Function("ast_class_of", I, I)(opnode)


OPCLS = z3.Function("ast_class_of", I, I)


def op_facts(opnode, names):
    """isinstance(op, ast.X) holds for exactly the class the node belongs to, which is one of the grammar's operators."""
    return [ISINST(opnode, clsref("ast." + n)) == (OPCLS(opnode) == clsref("ast." + n)) for n in names] + \
        [z3.Or([OPCLS(opnode) == clsref("ast." + n) for n in names])]


# ---- axioms, instantiated for one node by the unit that handles its type --------------------------------------------
def sem_BinOp(H, n):
    l, r, op = attr(H, n, "left"), attr(H, n, "right"), attr(H, n, "op")
    return [z3.Implies(EV(n), z3.And(EV(l), EV(r), DID_BINOP(OPCLS(op), VAL(l), VAL(r)), VAL(n) == BINOP(OPCLS(op), VAL(l), VAL(r))))] + op_facts(op, BIN_OPS)


def sem_UnaryOp(H, n):
    o, op = attr(H, n, "operand"), attr(H, n, "op")
    is_not = OPCLS(op) == clsref("ast.Not")
    return [z3.Implies(EV(n), z3.And(EV(o), z3.If(is_not, z3.And(DID_TRUTH(VAL(o)), VAL(n) == z3.If(TRUTHY(VAL(o)), FALSE, TRUE)),
                                                 z3.And(DID_UNOP(OPCLS(op), VAL(o)), VAL(n) == UNOP(OPCLS(op), VAL(o))))))] + op_facts(op, UN_OPS)


def sem_Attribute(H, n):
    v = attr(H, n, "value")
    return [z3.Implies(EV(n), z3.And(EV(v), DID_GETATTR(VAL(v), attr(H, n, "attr")), VAL(n) == GETATTR(VAL(v), attr(H, n, "attr")),
                                     ISINST(attr(H, n, "ctx"), clsref("ast.Load"))))]  # only Load-context nodes are evaluated


def sem_Subscript(H, n):
    v, s = attr(H, n, "value"), attr(H, n, "slice")
    return [z3.Implies(EV(n), z3.And(EV(v), EV(s), DID_GETITEM(VAL(v), VAL(s)), VAL(n) == GETITEM(VAL(v), VAL(s))))]


def sem_Slice(H, n):
    parts = [attr(H, n, k) for k in ("lower", "upper", "step")]
    vals = [z3.If(p == NONE, NONE, VAL(p)) for p in parts]
    return [z3.Implies(EV(n), z3.And([z3.Implies(p != NONE, EV(p)) for p in parts] + [VAL(n) == MKSLICE(*vals)]))]


def sem_IfExp(H, n):
    t, b, o = attr(H, n, "test"), attr(H, n, "body"), attr(H, n, "orelse")
    return [z3.Implies(EV(n), z3.And(EV(t), DID_TRUTH(VAL(t)),
                                     z3.If(TRUTHY(VAL(t)), z3.And(EV(b), z3.Not(EV(o)), VAL(n) == VAL(b)), z3.And(EV(o), z3.Not(EV(b)), VAL(n) == VAL(o)))))]


def sem_Expr(H, n):
    v = attr(H, n, "value")
    return [z3.Implies(EV(n), z3.And(EV(v), VAL(n) == VAL(v)))]


def sem_NamedExpr(H, n):
    v = attr(H, n, "value")
    return [z3.Implies(EV(n), z3.And(EV(v), VAL(n) == VAL(v)))]


def sem_Constant(H, n):
    return [z3.Implies(EV(n), VAL(n) == attr(H, n, "value"))]


def sem_BoolOp(H, n):
    """and/or: operands left to right; evaluation stops at the first falsy (and) / truthy (or) operand, whose value is the result."""
    vs = lst(H, attr(H, n, "values"))
    op = attr(H, n, "op")
    is_and = OPCLS(op) == clsref("ast.And")
    j = z3.Int("j!bo")
    m = z3.Length(vs)
    stops = lambda x: z3.If(is_and, z3.Not(TRUTHY(VAL(x))), TRUTHY(VAL(x)))
    return [m >= 2, z3.Or(is_and, OPCLS(op) == clsref("ast.Or")),
            z3.Implies(EV(n), EV(vs[0])),
            qforall([j], z3.Implies(z3.And(EV(n), j >= 0, j < m - 1, EV(vs[j])), z3.And(DID_TRUTH(VAL(vs[j])), EV(vs[j + 1]) == z3.Not(stops(vs[j]))))),
            qforall([j], z3.Implies(z3.And(EV(n), j >= 1, j < m, z3.Not(EV(vs[j - 1]))), z3.Not(EV(vs[j])))),
            # the value: the last operand evaluated
            qforall([j], z3.Implies(z3.And(EV(n), j >= 0, j < m, EV(vs[j]), z3.Or(j == m - 1, z3.Not(EV(vs[j + 1])))), VAL(n) == VAL(vs[j])))] + op_facts(op, ["And", "Or"])


def sem_Compare(H, n):
    """a op1 b op2 c ...: each operand evaluated at most once, left to right; stops at the first falsy link, whose value is
    the result; otherwise the value of the last link."""
    left = attr(H, n, "left")
    cs = lst(H, attr(H, n, "comparators"))
    ops = lst(H, attr(H, n, "ops"))
    m = z3.Length(cs)
    j = z3.Int("j!cm")
    operand = lambda x: z3.If(x == 0, left, cs[x - 1])  # operand x of the chain, x in 0..m
    link = lambda x: CMP(OPCLS(ops[x]), VAL(operand(x)), VAL(cs[x]))  # value of link x (between operand x and x+1)
    facts = [m >= 1, z3.Length(ops) == m, z3.Implies(EV(n), z3.And(EV(left), EV(cs[0]))),
             qforall([j], z3.Implies(z3.And(EV(n), j >= 0, j < m, EV(cs[j])), DID_CMP(OPCLS(ops[j]), VAL(operand(j)), VAL(cs[j])))),
             qforall([j], z3.Implies(z3.And(EV(n), j >= 0, j < m - 1, EV(cs[j])), z3.And(DID_TRUTH(link(j)), EV(cs[j + 1]) == TRUTHY(link(j))))),
             qforall([j], z3.Implies(z3.And(EV(n), j >= 1, j < m, z3.Not(EV(cs[j - 1]))), z3.Not(EV(cs[j])))),
             qforall([j], z3.Implies(z3.And(EV(n), j >= 0, j < m, EV(cs[j]), z3.Or(j == m - 1, z3.Not(EV(cs[j + 1])))), VAL(n) == link(j)))]
    facts.append(qforall([j], z3.Implies(z3.And(j >= 0, j < m), z3.Or([OPCLS(ops[j]) == clsref("ast." + nm) for nm in CMP_OPS]))))
    for nm in CMP_OPS:
        facts.append(qforall([j], z3.Implies(z3.And(j >= 0, j < m), ISINST(ops[j], clsref("ast." + nm)) == (OPCLS(ops[j]) == clsref("ast." + nm)))))
    return facts


def sem_elements(H, n, field):
    """Displays: every element is evaluated, left to right."""
    es = lst(H, attr(H, n, field))
    j = z3.Int("j!el")
    return [qforall([j], z3.Implies(z3.And(EV(n), j >= 0, j < z3.Length(es)), EV(es[j])))]


# ---- more axioms -----------------------------------------------------------------------------------------------------
def truth_of_bools():
    return [TRUTHY(TRUE), z3.Not(TRUTHY(FALSE)), z3.Not(TRUTHY(NONE))]


def identity_comparisons():
    a, b = z3.Int("a!id"), z3.Int("b!id")
    return [qforall([a, b], CMP(clsref("ast.Is"), a, b) == z3.If(a == b, TRUE, FALSE), patterns=[CMP(clsref("ast.Is"), a, b)]),
            qforall([a, b], CMP(clsref("ast.IsNot"), a, b) == z3.If(a == b, FALSE, TRUE), patterns=[CMP(clsref("ast.IsNot"), a, b)])]


def sem_Name(H, n, ntv):
    """A name outside comprehension scope: the current binding (arguments > closure > globals, as merged by the visitor and
    updated by assignment expressions), else the built-in of that name; an unbound name is a NameError, i.e. not evaluated."""
    nid = attr(H, n, "id")
    bound = z3.Select(dom(H, ntv), nid)
    return [z3.Implies(EV(n), z3.And(ISINST(attr(H, n, "ctx"), clsref("ast.Load")), z3.Or(bound, HAS_BUILTIN(nid)),
                                     VAL(n) == z3.If(bound, z3.Select(val(H, ntv), nid), BUILTIN(nid)),
                                     z3.Implies(bound, z3.Select(val(H, ntv), nid) != PLACEHOLDER)))]


def sem_NamedExprFull(H, n):
    v, t = attr(H, n, "value"), attr(H, n, "target")
    return [z3.Implies(EV(n), z3.And(EV(v), VAL(n) == VAL(v), ISINST(attr(H, t, "ctx"), clsref("ast.Store"))))]


VS = z3.Function("py_values_of", I, SeqI)  # list of nodes -> the sequence of their values
MKSET = z3.Function("py_set_of", SeqI, I)
JOIN = z3.Function("py_join", SeqI, I)
FORMAT = z3.Function("py_format", I, I, I, I)  # (value, conversion, format spec or None)


def values_of(H, l):
    es = lst(H, l)
    j = z3.Int("j!vs")
    return [z3.Length(VS(l)) == z3.Length(es), qforall([j], z3.Implies(z3.And(j >= 0, j < z3.Length(es)), VS(l)[j] == VAL(es[j])))]


def sem_display(kind, mk):
    def sem(H, n):
        l = attr(H, n, "elts")
        return sem_elements(H, n, "elts") + values_of(H, l) + [z3.Implies(EV(n), VAL(n) == mk(VS(l))),
                                                                z3.Implies(EV(n), z3.Not(ISINST(attr(H, n, "ctx"), clsref("ast.Store"))))]
    return sem


def sem_JoinedStr(H, n):
    l = attr(H, n, "values")
    return sem_elements(H, n, "values") + values_of(H, l) + [z3.Implies(EV(n), VAL(n) == JOIN(VS(l)))]

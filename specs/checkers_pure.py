"""Contracts of the event-free helper functions of icontract/_checkers.py."""
import z3

from pyvc.base import V, NONE, TRUE, FALSE, I, B, T_DICT, T_EXC, ISINST, clsref, strref, fresh
from pyvc.engine import FnSpec
from .lib import REG, S, boolterm, builtin_exc, forall, dom, val, lst, attr, cause_of


def missing_any(st, names_list_ref, D):
    """Some name of the list object is not a key of the domain array D."""
    j = z3.Int("j!miss")
    seq = lst(st, names_list_ref)
    return z3.Exists([j], z3.And(j >= 0, j < z3.Length(seq), z3.Not(z3.Select(D, seq[j]))))


def restriction(c, v, src, keyset):
    """v is a fresh dict: the restriction of dict `src` (pre-state) to the keys in set `keyset`."""
    pre, post = c.pre, c.post
    return [
        ("fresh", v.t >= pre.ctr),
        ("dom", forall(["k"], lambda k: z3.Select(dom(post, v.t), k) == z3.And(z3.Select(dom(pre, src), k), z3.Select(pre.get("set", keyset), k)))),
        ("val", forall(["k"], lambda k: z3.Implies(z3.Select(dom(post, v.t), k), z3.Select(val(post, v.t), k) == z3.Select(val(pre, src), k)))),
    ]


class AssertNoInvalidKwargs(FnSpec):
    addr = "_checkers.py::_assert_no_invalid_kwargs"
    hints = {"kwargs": "dict"}
    ret_hint = "opt_truthy"
    may_raise = False

    def ensures_ret(self, c, v):
        D = dom(c.pre, c.ref("kwargs"))
        bad = z3.Or(z3.Select(D, S("_ARGS")), z3.Select(D, S("_KWARGS")))
        return [("none_iff_valid", (v.t == NONE) == z3.Not(bad)),
                ("else_fresh_TypeError", z3.Implies(v.t != NONE, z3.And(builtin_exc(v.t, "TypeError", c.pre.ctr), cause_of(c.post, v.t) == NONE)))]


class AssertResolvedKwargsValid(FnSpec):
    addr = "_checkers.py::_assert_resolved_kwargs_valid"
    hints = {"postconditions": "list", "resolved_kwargs": "dict"}
    ret_hint = "opt_truthy"
    may_raise = False

    def ensures_ret(self, c, v):
        D = dom(c.pre, c.ref("resolved_kwargs"))
        bad = z3.And(z3.Length(lst(c.pre, c.ref("postconditions"))) > 0, z3.Or(z3.Select(D, S("result")), z3.Select(D, S("OLD"))))
        return [("none_iff_valid", (v.t == NONE) == z3.Not(bad)),
                ("else_fresh_TypeError", z3.Implies(v.t != NONE, z3.And(builtin_exc(v.t, "TypeError", c.pre.ctr), cause_of(c.post, v.t) == NONE)))]


class SelectConditionKwargs(FnSpec):
    addr = "_checkers.py::select_condition_kwargs"
    hints = {"resolved_kwargs": "dict"}
    ret_fresh = T_DICT
    ret_fields = ("ddom", "dval", "dord")
    ret_hint = "dict"

    def miss(self, c):
        return missing_any(c.pre, attr(c.pre, c.ref("contract"), "mandatory_args"), dom(c.pre, c.ref("resolved_kwargs")))

    def ensures_ret(self, c, v):
        return [("no_missing", z3.Not(self.miss(c)))] + restriction(
            c, v, c.ref("resolved_kwargs"), attr(c.pre, c.ref("contract"), "condition_arg_set"))

    def ensures_raise(self, c, e):
        return [("missing", self.miss(c)), ("TypeError", builtin_exc(e.t, "TypeError", c.pre.ctr)), ("cause_none", cause_of(c.post, e.t) == NONE)]


class SelectCaptureKwargs(FnSpec):
    addr = "_checkers.py::select_capture_kwargs"
    hints = {"resolved_kwargs": "dict"}
    ret_fresh = T_DICT
    ret_fields = ("ddom", "dval", "dord")
    ret_hint = "dict"

    def miss(self, c):
        return missing_any(c.pre, attr(c.pre, c.ref("a_snapshot"), "args"), dom(c.pre, c.ref("resolved_kwargs")))

    def ensures_ret(self, c, v):
        return [("no_missing", z3.Not(self.miss(c)))] + restriction(
            c, v, c.ref("resolved_kwargs"), attr(c.pre, c.ref("a_snapshot"), "arg_set"))

    def ensures_raise(self, c, e):
        return [("missing", self.miss(c)), ("TypeError", builtin_exc(e.t, "TypeError", c.pre.ctr)), ("cause_none", cause_of(c.post, e.t) == NONE)]


class SelectErrorKwargs(FnSpec):
    addr = "_checkers.py::select_error_kwargs"
    hints = {"resolved_kwargs": "dict"}
    ret_fresh = T_DICT
    ret_fields = ("ddom", "dval", "dord")
    ret_hint = "dict"

    def requires(self, c):
        ct = c.ref("contract")
        return [("error_arg_set_set", attr(c.pre, ct, "error_arg_set") != NONE), ("error_args_set", attr(c.pre, ct, "error_args") != NONE)]

    def miss(self, c):
        return missing_any(c.pre, attr(c.pre, c.ref("contract"), "error_args"), dom(c.pre, c.ref("resolved_kwargs")))

    def ensures_ret(self, c, v):
        return [("no_missing", z3.Not(self.miss(c)))] + restriction(
            c, v, c.ref("resolved_kwargs"), attr(c.pre, c.ref("contract"), "error_arg_set"))

    def ensures_raise(self, c, e):
        return [("missing", self.miss(c)), ("TypeError", builtin_exc(e.t, "TypeError", c.pre.ctr)), ("cause_none", cause_of(c.post, e.t) == NONE)]


PURE_SPECS = [AssertNoInvalidKwargs(), AssertResolvedKwargsValid(), SelectConditionKwargs(), SelectCaptureKwargs(), SelectErrorKwargs()]
for s in PURE_SPECS:
    REG.register(s)

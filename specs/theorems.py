"""Property-level lemmas over the contracts (no symbolic execution): each is an obligation whose hypotheses are
contracts proved elsewhere plus trusted language facts, and whose goal is taken from the property statement."""
import time
import z3

from pyvc.base import V, State, Obligation, NONE, I, B, SeqI, fresh, LIST_INDEX
from pyvc import solve, extract
from .lib import REG, S, dom, val, lst, attr
from .binding import RhoModel, wf_dict
from .decorate import SIGOF, PARAMS, NAMES, KINDS, EMPTY_DEFAULT, signature_facts, ResolveKwdefaults


class TheoremReport:
    """Quacks like engine.UnitReport for the checker."""

    def __init__(self, name, depends):
        self.name = name
        self.obligations = []
        self.results = []
        self.paths = 0
        self.pruned = 0
        self.error = None
        self.symex_s = 0.0
        self.solve_s = 0.0
        self.cover = set()
        self.depends = depends

        class _U:
            def describe(s):
                return {"unit": "theorem:" + name, "over_contracts_of": [extract.get_unit(d).describe() for d in depends], "dropped": []}
        self.unit = _U()

        class _S:
            def name(s):
                return "theorem:" + name
        self.spec = _S()


def rank(k):
    return z3.If(k == KINDS["POSITIONAL_ONLY"], 0, z3.If(k == KINDS["POSITIONAL_OR_KEYWORD"], 1, z3.If(k == KINDS["VAR_POSITIONAL"], 2,
                 z3.If(k == KINDS["KEYWORD_ONLY"], 3, 4))))


def inst(q, *terms):
    """Instance of a universally quantified formula (ForAll or a conjunction containing it is not unpacked)."""
    assert z3.is_quantifier(q) and q.is_forall() and q.num_vars() == len(terms), q
    return z3.substitute_vars(q.body(), *reversed(terms))


def binding_theorem():
    """C05: every named non-variadic parameter the contracts can ask for is bound in the resolved map to the very
    object Python binds for the body.  Hypotheses: the closure facts proved for decorate_with_checker on the current
    tree, the contracts of resolve_kwdefaults / kwargs_from_call, Python's binding rule (trusted).  The proof is
    scripted: the needed instances of the quantified facts are supplied, every obligation is quantifier-free."""
    from .decorate import closure_name_facts, _param_names_comprehension
    from pyvc.symex_call import FIDX, RIDX, comp_id
    from pyvc.base import distinct_elements
    st = State()
    st.ctr = fresh("ctr0")
    st.time = fresh("t0")
    f, args, kwargs, pn, kd, po = [fresh(n) for n in ("func", "args", "kwargs", "param_names", "kwdefaults", "positional_only")]
    base = [x > 2 for x in (f, args, kwargs, pn, kd, po)] + [x < st.ctr for x in (f, args, kwargs, pn, kd, po)]
    sg = SIGOF(f)
    ps, nm = lst(st, PARAMS(sg)), NAMES(sg)
    rs = lst(st, pn)
    n, m = z3.Length(nm), z3.Length(rs)
    argv = lst(st, args)
    KD, KV = dom(st, kwargs), val(st, kwargs)
    kind = lambda j: attr(st, ps[j], "kind")
    default = lambda j: attr(st, ps[j], "default")
    hasdef = lambda j: default(j) != EMPTY_DEFAULT
    inr = lambda x: z3.And(x >= 0, x < n)
    filtered = _param_names_comprehension() is not None
    P = (lambda j: z3.Not(z3.Or(kind(j) == KINDS["KEYWORD_ONLY"], kind(j) == KINDS["VAR_KEYWORD"]))) if filtered else (lambda j: z3.BoolVal(True))
    # ---- facts, as functions producing instances ---------------------------------------------------------------
    sf = signature_facts(st, sg)
    len_eq, names_q, dist_nm = sf[0], sf[1], sf[3]  # sf[2]: names are not None
    N = lambda j: inst(names_q, j)  # nm[j] == name(ps[j])
    D = lambda j: inst(dist_nm, j)  # LIST_INDEX(nm, nm[j]) == j
    KINDOK = lambda j: z3.Implies(inr(j), z3.Or([kind(j) == kv for kv in KINDS.values()]))
    ORDER = lambda a, b: z3.Implies(z3.And(inr(a), inr(b), a < b), rank(kind(a)) <= rank(kind(b)))  # canonical order (trusted)
    cf = closure_name_facts(st, st, sg, pn, po)
    if filtered:
        A0, A1q, A2q, A3q, A1_0, POq = cf
        A1 = lambda i: inst(A1q, i)
        A2 = lambda i, i2: inst(A2q, i, i2)
        A3 = lambda j: inst(A3q, j)
        fi = lambda x: FIDX(ps, comp_id(_param_names_comprehension()), x)
        ri = lambda x: RIDX(ps, comp_id(_param_names_comprehension()), x)
    PREF = z3.Function("ghost_all_positional_up_to", I, B)
    PREFdef = lambda j: PREF(j) == z3.If(j < 0, z3.BoolVal(True), z3.And(P(j), PREF(j - 1)))
    obls = []
    hyp0 = base + [len_eq]
    j = fresh("j_ind")
    j0 = fresh("j0")
    p = nm[j0]
    if filtered:
        L = lambda x: z3.Implies(z3.And(inr(x), PREF(x)), z3.And(x < m, fi(x) == x))
        z = z3.IntVal(0)
        obls.append(Obligation("theorem:C05/lemma.filtered_list_is_a_prefix.base",
                               hyp0 + [A0, PREFdef(z), A3(z), A2(z, ri(z)), A1(z), A1(ri(z))], L(z), "lemma", {"path": ["induction base"]}))
        obls.append(Obligation("theorem:C05/lemma.filtered_list_is_a_prefix.step",
                               hyp0 + [A0, j >= 0, L(j), PREFdef(j + 1), A3(j + 1), A2(ri(j + 1), j), A2(j, j + 1), A2(j + 1, ri(j + 1)), A1(j + 1), A1(j), A1(ri(j + 1))],
                               L(j + 1), "lemma", {"path": ["induction step"]}))
        # every parameter up to a positional one is positional (canonical order): PREF(j) for j <= j0
        M = lambda x: z3.Implies(z3.And(x >= -1, x <= j0), PREF(x))
        side = [inr(j0), rank(kind(j0)) <= 1]
        obls.append(Obligation("theorem:C05/lemma.positional_prefix.base", hyp0 + side + [PREFdef(z3.IntVal(-1))], M(z3.IntVal(-1)), "lemma", {"path": ["induction base"]}))
        obls.append(Obligation("theorem:C05/lemma.positional_prefix.step", hyp0 + side + [j >= -1, M(j), PREFdef(j + 1), ORDER(j + 1, j0), KINDOK(j + 1), KINDOK(j0)],
                               M(j + 1), "lemma", {"path": ["induction step"]}))
        # pairwise distinct names in the filtered list (justifies the ghost index function on it)
        a, b = fresh("a"), fresh("b")
        obls.append(Obligation("theorem:C05/lemma.positional_names_pairwise_distinct",
                               hyp0 + [A1(a), A1(b), A2(a, b), N(fi(a)), N(fi(b)), D(fi(a)), D(fi(b))],
                               z3.Implies(z3.And(a >= 0, a < b, b < m), rs[a] != rs[b]), "lemma", {"path": ["lemma"]}))
    # ---- main goal ------------------------------------------------------------------------------------------------
    q = LIST_INDEX(rs, p)  # where the code looks the name up among the positional names
    KWF = wf_dict(st, kwargs)
    rk = ResolveKwdefaults.content(st, st, kd, sg)
    drs = distinct_elements(rs)
    vp = fresh("vp_index")
    premises = [
        inr(j0), z3.Or(rank(kind(j0)) <= 1, rank(kind(j0)) == 3), KINDOK(j0),
        # the call binds (language reference 6.3.4), instantiated at j0 / p
        z3.Implies(z3.And(rank(kind(j0)) == 1, j0 < z3.Length(argv)), z3.Not(z3.Select(KD, p))),
        z3.Implies(z3.Not(hasdef(j0)), z3.And(z3.Implies(rank(kind(j0)) == 0, j0 < z3.Length(argv)),
                                               z3.Implies(rank(kind(j0)) == 1, z3.Or(j0 < z3.Length(argv), z3.Select(KD, p))),
                                               z3.Implies(rank(kind(j0)) == 3, z3.Select(KD, p)))),
        N(j0), D(j0), inst(rk[0], p), inst(rk[1], p),
    ]
    if filtered:
        Lq = lambda x: z3.Implies(z3.And(inr(x), PREF(x)), z3.And(x < m, fi(x) == x))
        premises += [Lq(j0), z3.Implies(rank(kind(j0)) <= 1, PREF(j0)),  # the two lemmas, at j0
                     A1(j0), inst(drs, j0), A1(q), inst(drs, q), N(fi(q)), D(fi(q)), KINDOK(fi(q)),
                     inst(POq, p), z3.Implies(z3.And(inr(j0), kind(j0) == KINDS["POSITIONAL_ONLY"], attr(st, ps[j0], "name") == p), z3.Select(st.get("set", po), p))]
        # a name in positional_only is the name of a positional-only parameter: skolem witness of the set comprehension
        w = fresh("po_witness")
        premises += [z3.Implies(z3.Select(st.get("set", po), p), z3.And(inr(w), kind(w) == KINDS["POSITIONAL_ONLY"], attr(st, ps[w], "name") == p)),
                     N(w), D(w)]
    else:
        premises += [rs == nm, inst(drs, j0), inst(drs, q)]
    model = RhoModel(st, pn, kd, args, kwargs, po=po if filtered else None)
    bind = z3.If(rank(kind(j0)) == 0, z3.If(j0 < z3.Length(argv), argv[j0], default(j0)),
                 z3.If(rank(kind(j0)) == 1, z3.If(j0 < z3.Length(argv), argv[j0], z3.If(z3.Select(KD, p), z3.Select(KV, p), default(j0))),
                       z3.If(z3.Select(KD, p), z3.Select(KV, p), default(j0))))
    goal = z3.And(model.indom(p), model.value(p) == bind)
    meta = {"path": ["theorem"]}
    obls.append(Obligation("theorem:C05/resolved_value_is_the_bound_value", hyp0 + premises, goal, "theorem", meta))
    obls.append(Obligation("theorem:C05/cover.some_named_parameter", hyp0 + premises, z3.BoolVal(False), "cover", {"path": ["cover"], "expect": "refuted"}))
    return obls


def verify_C05():
    rep = TheoremReport("C05.binding", ["_checkers.py::decorate_with_checker", "_checkers.py::kwargs_from_call", "_checkers.py::resolve_kwdefaults"])
    t0 = time.time()
    obls = binding_theorem()
    res = solve.discharge_all(obls, REG.specfuns, fuel=1)
    # the cover obligation must be refutable (the premises are consistent): otherwise the theorem is vacuous
    for o, r in zip(obls, res):
        if o.kind == "cover":
            if r["status"] == "refuted" and not r.get("candidate"):
                r["status"] = "proved"
                r["backend"] = "cover: premises satisfiable, as required"
            else:
                r["status"] = "unknown"
    rep.obligations, rep.results = obls, res
    rep.solve_s = time.time() - t0
    return rep


def verify_SLOW():
    """C15: icontract.SLOW == __debug__ and ICONTRACT_SLOW set to a non-empty string -- the module-level assignment of
    _globals.py evaluated symbolically with __debug__ and the environment as symbolic inputs."""
    import ast
    from pyvc.engine import Executor
    from pyvc.base import vbool, V, B, strref
    rep = TheoremReport("C15.SLOW", [])
    tree, src = extract.module_ast("_globals.py")
    node = next((n for n in tree.body if isinstance(n, ast.Assign) and ast.unparse(n.targets[0]) == "SLOW"), None)

    class _U:
        def describe(s):
            import hashlib
            return {"unit": "_globals.py::<module>.SLOW", "ast_sha256": hashlib.sha256(ast.dump(node).encode()).hexdigest() if node else None, "dropped": []}
    rep.unit = _U()
    if node is None:
        rep.error = "unsupported: no module-level assignment to SLOW in _globals.py"
        return rep
    DEBUG = z3.Bool("__debug__")
    ENV_SET = z3.Function("environ_has", I, B)
    ENV_VAL = z3.Function("environ_value", I, I)

    class Spec:
        calls = {}
        methods = {}

        def __init__(s):
            def getenv(ex, st, n, args, kwargs):
                key = args[0].t
                default = ex.to_ref(st, args[1]) if len(args) > 1 else NONE
                return [(st, V("ref", z3.If(ENV_SET(key), ENV_VAL(key), default)))]
            s.calls = {"os.environ.get": getenv, "os.getenv": getenv}
    prev_contains = REG.contains_hook
    REG.globals["os.environ"] = V("ref", fresh("environ"), "environ")
    REG.contains_hook = lambda ex, st, container, item: ENV_SET(ex.to_ref(st, item)) if container.py == "environ" else prev_contains(ex, st, container, item)
    prev_item = REG.item_hook
    REG.item_hook = lambda ex, st, o, k: [(st, V("ref", ENV_VAL(ex.to_ref(st, k))))] if o.py == "environ" else prev_item(ex, st, o, k)
    ex = Executor("_globals.SLOW", Spec(), REG)
    ex.unit_node = node
    st = State()
    st.ctr = fresh("ctr0")
    st.time = fresh("t0")
    st.vars["__debug__"] = vbool(DEBUG)
    key = strref("ICONTRACT_SLOW")
    obls = []
    try:
        for s, v in ex.eval(st, node.value):
            for s2, b in ex.truth(s, v):
                want = z3.And(DEBUG, ENV_SET(key), ENV_VAL(key) != strref(""))
                obls.append(Obligation("theorem:C15/SLOW_iff_debug_and_ICONTRACT_SLOW_non_empty", s2.pc, b == want, "theorem", {"path": list(s2.path)}))
    except Exception as e:
        rep.error = "unsupported: %s" % e
        return rep
    REG.contains_hook, REG.item_hook = prev_contains, prev_item
    rep.obligations = obls + ex.obls
    rep.results = solve.discharge_all(rep.obligations, REG.specfuns, fuel=1)
    return rep

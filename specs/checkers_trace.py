"""Contracts of the units of icontract/_checkers.py that call user code: exact expected traces (monitor form)."""
import z3
from pyvc.base import qforall

from pyvc.base import V, NONE, TRUE, FALSE, I, B, T_DICT, T_EXC, T_OBJ, ISINST, clsref, strref, fresh, vbool
from pyvc.engine import FnSpec
from pyvc.registry import event, EMPTY, RESP_RAISES, RESP_VAL, RESP_BOOL, IS_CORO, IS_COROFN
from pyvc.symex import Raise
from .lib import REG, S, boolterm, builtin_exc, forall, dom, val, lst, attr, cause_of, is_userobj
from . import trace_funs as T
from .trace_funs import Res, OK, FAIL, RAISEU, RAISEL, CW, PW, VI

F_ = z3.BoolVal(False)
T_ = z3.BoolVal(True)


def raise_matches(c, e, R):
    """The raised object e is what outcome R prescribes: the user's very exception, or the documented fresh wrapper."""
    return z3.Or(
        z3.And(R.kind == RAISEU, e == R.val),
        z3.And(R.kind == RAISEL, e >= c.pre.ctr, ISINST(e, R.cls), z3.Implies(R.cls == clsref("TypeError"), builtin_exc(e, "TypeError")),
               z3.Implies(R.cls == clsref("ValueError"), builtin_exc(e, "ValueError")), cause_of(c.post, e) == R.val),
    )


def selection_of(ex, st, kw, rho, keyset, tag):
    """Obligation at a call into user code (C05): the keyword map passed is rho restricted to the names asked for."""
    k = z3.Int("k!sel")
    ex.oblige(st, tag + ".kwargs_are_selection_of_resolved", z3.ForAll([k], z3.And(
        z3.Select(dom(st, kw), k) == z3.And(z3.Select(dom(st, rho), k), z3.Select(st.get("set", keyset), k)),
        z3.Implies(z3.Select(dom(st, kw), k), z3.Select(val(st, kw), k) == z3.Select(val(st, rho), k)))), kind="callsite")


def cond_oracle(rho_name="resolved_kwargs"):
    """contract.condition(**condition_kwargs) -- event Cond(contract, rho)."""
    def h(ex, st, node, recv, args, kwargs):
        if args or set(kwargs) != {"**"}:
            return None
        c = recv.t
        rho = st.vars[rho_name].t
        n = ex.ordinal("oracle:Cond")
        selection_of(ex, st, kwargs["**"].t, rho, attr(st, c, "condition_arg_set"), "oracle.Cond#%d" % n)
        return REG.oracle(ex, st, "Cond", c, rho)
    return h


def recv_contract(ex, st, node):
    """The object whose .condition/.capture/.error is called: the receiver expression's base (a local name)."""
    base = node.func.value
    (s2, v), = ex.eval(st, base.value if hasattr(base, "value") and not hasattr(base, "id") else base)
    return v.t


class NotCheck(FnSpec):
    addr = "_checkers.py::not_check"
    ret_kind = "bool"
    trace = True

    def setup(self, ex, st, a):
        T.bind_defs(st.copy())

    def res(self, c):
        return T.NC(c.ref("check"), c.pre.time)

    def init_trace(self, c):
        return self.res(c).ev

    def ensures_ret(self, c, v):
        R = self.res(c)
        return [("judged", z3.Or(R.kind == OK, R.kind == FAIL)), ("negation", boolterm(v) == (R.kind == FAIL)), ("clock", c.post.time == R.end)]

    def ensures_raise(self, c, e):
        R = self.res(c)
        return [("raise_is_users_or_wrapper", raise_matches(c, e.t, R)), ("clock", c.post.time == R.end)]

    def call_events(self, ex, st, c):
        REG.emit_if(ex, st, is_userobj(c.ref("check")), "Truth", c.ref("check"))


from .violation import CreateViolationError  # noqa: E402  (C09: the block's own contract)


class _PreLoops:
    """Loop invariants of _assert_preconditions[_async] in monitor form (DESIGN.md section 5)."""

    class Outer:
        var_hints = {"group": "list", "condition_kwargs": "dict"}

        def __init__(self, spec):
            self.spec = spec

        def inv(self, c):
            sp = self.spec
            R = sp.R
            gi, n, st = c.i, c.n, c.st
            Pi = PW(sp.am, sp.D, sp.rho, sp.P, gi, st.time)
            exc = st.vars["exception"].t
            return [
                z3.Implies(gi == 0, exc == NONE),
                z3.Implies(gi < n, z3.And(st.todo == Pi.ev, Pi.eqs(R))),
                z3.Implies(gi >= n, z3.And(st.todo == EMPTY, st.time == R.end,
                                           z3.If(n == 0, R.kind == OK, z3.And(R.kind == FAIL, R.val == exc, exc != NONE)))),
            ]

    class Inner:
        var_hints = {"condition_kwargs": "dict"}

        def __init__(self, spec):
            self.spec = spec

        def inv(self, c):
            sp = self.spec
            st = c.st
            gi = c.entry.ghost["i:preconditions#0"]
            tg = c.entry.time
            g = c.entry.vars["group"].t
            G0 = CW(sp.am, F_, sp.D, sp.rho, g, z3.IntVal(0), tg)
            Gi = CW(sp.am, F_, sp.D, sp.rho, g, c.i, st.time)
            more = gi + 1 < z3.Length(lst(c.entry, sp.P))
            K = z3.If(z3.And(G0.kind == FAIL, more), PW(sp.am, sp.D, sp.rho, sp.P, gi + 1, G0.end).ev, EMPTY)
            return [st.vars["exception"].t == NONE, st.todo == z3.Concat(Gi.ev, K), Gi.eqs(G0)]


class AssertPreconditions(FnSpec):
    addr = "_checkers.py::_assert_preconditions"
    hints = {"preconditions": "list", "resolved_kwargs": "dict"}
    am = F_
    trace = True

    def __init__(self):
        self.loops = {"preconditions": _PreLoops.Outer(self), "group": _PreLoops.Inner(self)}
        self.methods = {"condition": cond_oracle()}

    def result(self, c):
        return PW(self.am, dom(c.pre, c.ref("resolved_kwargs")), c.ref("resolved_kwargs"), c.ref("preconditions"), z3.IntVal(0), c.pre.time)

    def setup(self, ex, st, a):
        T.bind_defs(st.copy())
        self.D = dom(st, a["resolved_kwargs"].t)
        self.rho = a["resolved_kwargs"].t
        self.P = a["preconditions"].t
        self.R = PW(self.am, self.D, self.rho, self.P, z3.IntVal(0), st.time)

    def init_trace(self, c):
        return self.result(c).ev

    def ensures_ret(self, c, v):
        R = self.result(c)
        return [("none_iff_accepted", z3.Or(z3.And(R.kind == OK, v.t == NONE), z3.And(R.kind == FAIL, v.t == R.val, v.t != NONE))),
                ("clock", c.post.time == R.end)]

    def ensures_raise(self, c, e):
        R = self.result(c)
        return [("raise_is_users_or_wrapper", raise_matches(c, e.t, R)), ("clock", c.post.time == R.end)]

    def call_events(self, ex, st, c):
        REG.emit(ex, st, "PreBlock", c.ref("preconditions"), c.ref("resolved_kwargs"))
        st.time = self.result(c).end


class AssertPreconditionsAsync(AssertPreconditions):
    addr = "_checkers.py::_assert_preconditions_async"
    am = T_


TRACE_SPECS = [NotCheck(), CreateViolationError(), AssertPreconditions(), AssertPreconditionsAsync()]
for s in TRACE_SPECS:
    REG.register(s)


# ---- postconditions ------------------------------------------------------------------------------------------
class _PostLoop:
    var_hints = {"condition_kwargs": "dict"}

    def __init__(self, spec):
        self.spec = spec

    def inv(self, c):
        sp = self.spec
        Qi = CW(sp.am, sp.cf, sp.D, sp.rho, sp.Q, c.i, c.st.time)
        return [c.st.todo == Qi.ev, Qi.eqs(sp.R)]


class AssertPostconditions(FnSpec):
    addr = "_checkers.py::_assert_postconditions"
    hints = {"postconditions": "list", "resolved_kwargs": "dict"}
    am = F_
    cf = T_  # the sync twin tests for a coroutine function before selecting the arguments
    trace = True

    def __init__(self):
        self.loops = {"postconditions": _PostLoop(self)}
        self.methods = {"condition": cond_oracle()}

    def requires(self, c):
        return [("result_bound", z3.Select(dom(c.pre, c.ref("resolved_kwargs")), S("result")))]

    def result(self, c):
        return CW(self.am, self.cf, dom(c.pre, c.ref("resolved_kwargs")), c.ref("resolved_kwargs"), c.ref("postconditions"), z3.IntVal(0), c.pre.time)

    def setup(self, ex, st, a):
        T.bind_defs(st.copy())
        self.D = dom(st, a["resolved_kwargs"].t)
        self.rho = a["resolved_kwargs"].t
        self.Q = a["postconditions"].t
        self.R = CW(self.am, self.cf, self.D, self.rho, self.Q, z3.IntVal(0), st.time)

    def init_trace(self, c):
        return self.result(c).ev

    def ensures_ret(self, c, v):
        R = self.result(c)
        return [("none_iff_all_hold", z3.Or(z3.And(R.kind == OK, v.t == NONE), z3.And(R.kind == FAIL, v.t == R.val, v.t != NONE))),
                ("clock", c.post.time == R.end)]

    def ensures_raise(self, c, e):
        R = self.result(c)
        return [("raise_is_users_or_wrapper", raise_matches(c, e.t, R)), ("clock", c.post.time == R.end)]

    def call_events(self, ex, st, c):
        REG.emit(ex, st, "PostBlock", c.ref("postconditions"), c.ref("resolved_kwargs"))
        st.time = self.result(c).end


class AssertPostconditionsAsync(AssertPostconditions):
    addr = "_checkers.py::_assert_postconditions_async"
    am = T_
    cf = F_


TRACE_SPECS += [AssertPostconditions(), AssertPostconditionsAsync()]
for s in TRACE_SPECS[-2:]:
    REG.register(s)


# ---- snapshots ---------------------------------------------------------------------------------------------------
from .trace_funs import KP, KW, KS


def cap_oracle(rho_name="resolved_kwargs"):
    def h(ex, st, node, recv, args, kwargs):
        if args or set(kwargs) != {"**"}:
            return None
        s = recv.t
        rho = st.vars[rho_name].t
        n = ex.ordinal("oracle:Cap")
        selection_of(ex, st, kwargs["**"].t, rho, attr(st, s, "arg_set"), "oracle.Cap#%d" % n)
        return REG.oracle(ex, st, "Cap", s, rho)
    return h


def old_ctor(ex, st, node, args, kwargs):
    """Old(mapping=m): a fresh object whose instance dictionary is a copy of m (Old.__init__: self.__dict__.update)."""
    m = kwargs["mapping"] if "mapping" in kwargs else args[0]
    o = st.alloc(T_OBJ, "old")
    st.put("ddom", o, dom(st, m.t))
    st.put("dval", o, val(st, m.t))
    REG.external("Old.__init__", "self.__dict__.update(mapping) on a fresh instance: instance dictionary == mapping")
    return [(st, V("ref", o, "old"))]


REG.calls["Old"] = old_ctor


NIDX = z3.Function("ghost_name_index", I, I, I)  # (snapshot list, name) -> index; see CaptureOld.setup


def captured_map(sp, H, n, m_dom, m_val, upto, t0, witness=False):
    """The mapping holds exactly the captures of snapshots S[:upto], each with the value captured at its own time."""
    seq = lst(H, sp.S)
    j, k = z3.Int("j!cm"), z3.Int("k!cm")
    name = lambda x: attr(H, x, "name")
    if witness:
        nothing_else = qforall([k], z3.Implies(z3.Select(m_dom, k), z3.And(NIDX(sp.S, k) >= 0, NIDX(sp.S, k) < upto, k == name(seq[NIDX(sp.S, k)]))),
                                 patterns=[z3.Select(m_dom, k)])
    else:
        nothing_else = z3.ForAll([k], z3.Implies(z3.Select(m_dom, k), z3.Exists([j], z3.And(j >= 0, j < upto, k == name(seq[j])))))
    return [
        z3.ForAll([j], z3.Implies(z3.And(j >= 0, j < upto), z3.And(
            z3.Select(m_dom, name(seq[j])),
            z3.Select(m_val, name(seq[j])) == KP(sp.am, sp.D, sp.rho, seq[j], KS(sp.am, sp.D, sp.rho, sp.S, j, t0)).val))),
        nothing_else,
    ]


class _CapLoop:
    var_hints = {"capture_kwargs": "dict"}

    def __init__(self, spec):
        self.spec = spec

    def modifies(self, c):
        m = c.st.vars["old_as_mapping"].t
        return [("ddom", m), ("dval", m), ("dord", m)]

    def inv(self, c):
        sp = self.spec
        st = c.st
        m = st.vars["old_as_mapping"].t
        Wi = KW(sp.am, sp.D, sp.rho, sp.S, c.i, st.time)
        return [st.todo == Wi.ev, Wi.eqs(sp.R), st.time == KS(sp.am, sp.D, sp.rho, sp.S, c.i, sp.t0)] + \
            captured_map(sp, c.entry, c.n, dom(st, m), val(st, m), c.i, sp.t0, witness=True)


class CaptureOld(FnSpec):
    addr = "_checkers.py::_capture_old"
    hints = {"snapshots": "list", "resolved_kwargs": "dict"}
    am = F_
    trace = True
    ret_fresh = T_OBJ
    ret_fields = ("ddom", "dval")
    ret_hint = "old"

    def __init__(self):
        self.loops = {"snapshots": _CapLoop(self)}
        self.methods = {"capture": cap_oracle()}

    def requires(self, c):
        seq = lst(c.pre, c.ref("snapshots"))
        i, j = z3.Int("i!dn"), z3.Int("j!dn")
        return [("snapshot_names_distinct", z3.ForAll([i, j], z3.Implies(
            z3.And(i >= 0, i < j, j < z3.Length(seq)), attr(c.pre, seq[i], "name") != attr(c.pre, seq[j], "name"))))]

    def bindc(self, c):
        self.D = dom(c.pre, c.ref("resolved_kwargs"))
        self.rho = c.ref("resolved_kwargs")
        self.S = c.ref("snapshots")
        self.t0 = c.pre.time
        self.R = KW(self.am, self.D, self.rho, self.S, z3.IntVal(0), self.t0)
        return self.R

    def setup(self, ex, st, a):
        T.bind_defs(st.copy())
        self.bindc(type("C", (), {"pre": st, "ref": lambda s, n: a[n].t})())
        # ghost function introduction (conservative): the names are pairwise distinct (requires), hence a function
        # from a name to the index of the snapshot carrying it exists.
        seq = lst(st, self.S)
        j = z3.Int("j!ni")
        st.assume(z3.ForAll([j], z3.Implies(z3.And(j >= 0, j < z3.Length(seq)), NIDX(self.S, attr(st, seq[j], "name")) == j)))
        REG.assumptions.add("ghost index function for pairwise-distinct snapshot names (definitional extension)")

    def init_trace(self, c):
        return self.bindc(c).ev

    def ensures_ret(self, c, v):
        R = self.bindc(c)
        n = z3.Length(lst(c.pre, self.S))
        cm = captured_map(self, c.pre, n, dom(c.post, v.t), val(c.post, v.t), n, self.t0)
        return [("all_captured", R.kind == OK), ("clock", c.post.time == R.end), ("fresh", v.t >= c.pre.ctr),
                ("old_has_every_capture", cm[0]), ("old_has_nothing_else", cm[1])]

    def ensures_raise(self, c, e):
        R = self.bindc(c)
        return [("raise_is_users_or_wrapper", raise_matches(c, e.t, R)), ("clock", c.post.time == R.end)]

    def call_events(self, ex, st, c):
        REG.emit(ex, st, "CapBlock", c.ref("snapshots"), c.ref("resolved_kwargs"))
        st.time = self.bindc(c).end


class CaptureOldAsync(CaptureOld):
    addr = "_checkers.py::_capture_old_async"
    am = T_


class OldGetattr(FnSpec):
    """Old.__getattr__ (reached only when normal lookup in the instance dictionary fails): a missing snapshot is an
    AttributeError on every path, never a value (C08: OLD never yields a silent None for a name that was not captured)."""
    addr = "_checkers.py::Old.__getattr__"

    def ensures_ret(self, c, v):
        return [("never_returns", z3.BoolVal(False))]

    def ensures_raise(self, c, e):
        return [("AttributeError", builtin_exc(e.t, "AttributeError", c.pre.ctr))]


TRACE_SPECS += [CaptureOld(), CaptureOldAsync(), OldGetattr()]
for s in TRACE_SPECS[-3:]:
    REG.register(s)

"""icontract/_metaclass.py::_decorate_namespace_property -- merging inherited contracts into the accessors of a property
(C04 C17 C18).  Per accessor (fget, fset, fdel) the function repeats what _decorate_namespace_function does for a method,
with "what the base provides" = the same accessor of the base's property; the contract below is that statement, three times.

The loop over the three accessors is unrolled by the executor (a list display of fixed length); the loop over the bases
carries the same invariant as in the function variant, parameterised by the accessor."""
import z3

from pyvc.base import V, NONE, TRUE, FALSE, I, B, SeqI, T_OBJ, T_LIST, T_FUNC, ISINST, clsref, fresh, vbool, TY, qforall
from pyvc.engine import FnSpec
from .lib import REG, S, builtin_exc, dom, val, lst, attr
from .classes import rhas, rget, ANC
from .decorators import found, chain_facts, bind_fc
from .decorate import DWC
from .metaclass import LISTS, ISFUNCTION, ISPROPERTY, bind_ci, DecorateNamespaceFunction, META_SPECS
from .types import SIG_RAISES

ACCN = ["fget", "fset", "fdel"]
REG.attr_hints.update({"fget": None, "fset": None, "fdel": None})

# contributions of the first i bases to accessor s of the property `key` (same shape as the function variant)
PCAT = {w: REG.specfun("inherited_accessor_" + w, [I, I, I, I, SeqI]) for w in LISTS}  # (bases, key, s, i)
PHAVE = REG.specfun("bases_have_accessor", [I, I, I, I, B])
POPEN = REG.specfun("a_base_accessor_accepts_every_call", [I, I, I, I, B])


def acc(H, p, s):
    """Accessor number s of property object p."""
    return z3.If(s == 0, attr(H, p, "fget"), z3.If(s == 1, attr(H, p, "fset"), attr(H, p, "fdel")))


def base_acc(H, b, key, s):
    return acc(H, rget(H, b, key), s)


def base_acc_checker(H, b, key, s):
    return found(H, base_acc(H, b, key, s))


def provides(H, b, key, s):
    return z3.And(rhas(H, b, key), base_acc(H, b, key, s) != NONE)


def bind_prop(H):
    bind_fc(H)
    bind_ci(H)

    def mk(w):
        def d(bases, key, s, i):
            b = lst(H, bases)[i - 1]
            k = base_acc_checker(H, b, key, s)
            here = z3.If(z3.And(provides(H, b, key, s), k != NONE), lst(H, attr(H, k, LISTS[w])), z3.Empty(SeqI))
            return PCAT[w](bases, key, s, i) == z3.If(i <= 0, z3.Empty(SeqI), z3.Concat(PCAT[w](bases, key, s, i - 1), here))
        return d
    for w in LISTS:
        PCAT[w].defn = mk(w)

    def dh(bases, key, s, i):
        b = lst(H, bases)[i - 1]
        return PHAVE(bases, key, s, i) == z3.If(i <= 0, z3.BoolVal(False), z3.Or(PHAVE(bases, key, s, i - 1), provides(H, b, key, s)))
    PHAVE.defn = dh

    def do(bases, key, s, i):
        b = lst(H, bases)[i - 1]
        k = base_acc_checker(H, b, key, s)
        open_ = z3.And(provides(H, b, key, s), z3.Or(k == NONE, z3.Length(lst(H, attr(H, k, "__preconditions__"))) == 0))
        return POPEN(bases, key, s, i) == z3.If(i <= 0, z3.BoolVal(False), z3.Or(POPEN(bases, key, s, i - 1), open_))
    POPEN.defn = do


class DecorateNamespaceProperty(FnSpec):
    addr = "_metaclass.py::_decorate_namespace_property"
    hints = {"bases": "classlist", "namespace": "dict"}

    class Loop:
        trace = False
        var_hints = {"base_contract_checker": None, "base_property": None, "base_func": None}
        var_kinds = {"bases_have_func": "bool", "a_base_accepts_all": "bool", "shares_the_checker_with_a_base": "bool"}

        def __init__(self, spec):
            self.spec = spec

        def modifies(self, c):
            return [("list", c.st.vars[v].t) for v in ("base_preconditions", "base_snapshots", "base_postconditions")]

        def inv(self, c):
            sp, st = self.spec, c.st
            H = sp.pre
            s = sp.slot_of(st)
            k0 = found(H, st.vars["func"].t)
            bs = lst(H, sp.bases)
            j = z3.Int("j!ps")
            acc_, have = st.vars["a_base_accepts_all"].t, st.vars["bases_have_func"].t
            return [lst(st, st.vars["base_preconditions"].t) == PCAT["pre"](sp.bases, sp.key, s, c.i),
                    lst(st, st.vars["base_snapshots"].t) == PCAT["snap"](sp.bases, sp.key, s, c.i),
                    lst(st, st.vars["base_postconditions"].t) == PCAT["post"](sp.bases, sp.key, s, c.i),
                    have == PHAVE(sp.bases, sp.key, s, c.i),
                    z3.ForAll([j], z3.Implies(z3.And(j >= 0, j < c.i, provides(H, bs[j], sp.key, s)), z3.Not(sp.shares(H, bs[j], sp.key, s, k0)))),
                    z3.Not(st.vars["shares_the_checker_with_a_base"].t),
                    acc_ == POPEN(sp.bases, sp.key, s, c.i), z3.Implies(acc_, have),
                    z3.Implies(z3.And(have, z3.Not(acc_)), z3.Length(lst(st, st.vars["base_preconditions"].t)) > 0)]

    class Outer:
        """The loop over the three accessors: accessor w is settled once the index has passed it."""
        trace = False
        concrete_indices = True  # three accessors: one iteration VC per accessor
        var_hints = {"func": None, "contract_checker": None, "base_contract_checker": None, "base_property": None, "base_func": None, "base": "class",
                     "preconditions": "list", "snapshots": "list", "postconditions": "list",
                     "base_preconditions": "list", "base_snapshots": "list", "base_postconditions": "list"}
        var_kinds = {"bases_have_func": "bool", "a_base_accepts_all": "bool", "shares_the_checker_with_a_base": "bool"}

        def __init__(self, spec):
            self.spec = spec

        def modifies(self, c):
            sp = self.spec
            b = c.entry.ctr
            ks = [(sp.own(sp.pre, sp.a, w), sp.own_checker(sp.pre, sp.a, w)) for w in range(3)]
            own_checker = lambda r: z3.Or([z3.And(f != NONE, k0 != NONE, r == k0) for f, k0 in ks])
            m = []
            listattrs = ["attr:" + x for x in LISTS.values()]
            for f in listattrs:
                m.append((f, (lambda r, b=b: z3.Or(r >= b, own_checker(r)))))
            for f in ["list"] + [x for x in DWC.ret_fields if x not in listattrs]:
                m.append((f, (lambda r, b=b: r >= b)))
            return m

        def inv(self, c):
            sp, st = self.spec, c.st
            out = []
            for w in range(3):
                out += sp.settled(sp.pre, st, sp.a, w, c.i > w, st.vars[ACCN[w]].t)
            out += sp.frame(sp.pre, st, sp.a, [c.i > w for w in range(3)])
            return out

    def __init__(self):
        self.loops = {"bases": self.Loop(self), "[value.fget, value.fset, value.fdel]": self.Outer(self)}
        self.calls = {"property": self.property_call, "icontract._checkers.decorate_with_checker": self.slim_dwc}

    def slim_dwc(self, ex, st, node, args, kwargs):
        """decorate_with_checker at this call site: its precondition is an obligation; of its (proved) postconditions only those this
        unit needs are assumed -- a fresh plain function wrapping func, with three fresh, empty, distinct contract lists."""
        from pyvc.symex import Raise
        f = ex.to_ref(st, kwargs.get("func") or args[0])
        n = ex.ordinal("call:decorate_with_checker")
        cc = type("C", (), {"ref": lambda s_, nm: f, "pre": st})()
        for nm, frm in DWC.requires(cc):
            ex.oblige(st, "call[decorate_with_checker]#%d.requires.%s" % (n, nm), frm, kind="requires")
        out = []
        ok = st.copy()
        w = ok.alloc(T_FUNC, "checker")
        ok.put("attr:__wrapped__", w, f)
        ok.put("has:__wrapped__", w, z3.BoolVal(True))
        for a_ in LISTS.values():
            l = ok.alloc(T_LIST, "clist")
            ok.put("list", l, z3.Empty(SeqI))
            ok.put("attr:" + a_, w, l)
            ok.put("has:" + a_, w, z3.BoolVal(True))
        ok.assume(ISFUNCTION(w), z3.Not(ISPROPERTY(w)), z3.Not(SIG_RAISES(f)), z3.Not(DWC.reserved(cc)))
        ok.path.append("call[decorate_with_checker]#%d:ret" % n)
        if ex.feasible(ok):
            out.append((ok, V("ref", w, "func")))
        bad = st.copy()
        e = fresh("exc_dwc")
        nc = fresh("ctr")
        bad.assume(e > 2, nc > e, nc >= bad.ctr, z3.Or(SIG_RAISES(f), DWC.reserved(cc)))
        bad.ctr = nc
        ex.user_exception_facts(bad, e)
        bad.path.append("call[decorate_with_checker]#%d:raise" % n)
        if ex.feasible(bad):
            out.append((bad, Raise(e)))
        return out

    def settled(self, H, st, a, w, done, X):
        """State of accessor w: X is the function that will go into the property (the local fget/fset/fdel, or the final entry's)."""
        e = self.effective_at(H, a, w)
        k0 = e["k0"]
        new = z3.And(done, e["active"], k0 == NONE)
        K = z3.If(k0 != NONE, k0, X)
        lists_ok = z3.And([z3.And(attr(st, K, LISTS[x]) >= H.ctr, attr(st, K, LISTS[x]) < st.ctr, lst(st, attr(st, K, LISTS[x])) == e[x]) for x in ("pre", "snap", "post")])
        return [z3.Implies(done, z3.And(z3.Not(e["reject"]), z3.Not(e["dup"]))),
                z3.Implies(z3.Not(new), X == e["f"]),
                z3.Implies(new, z3.And(X >= H.ctr, X < st.ctr, attr(st, X, "__wrapped__") == e["f"])),
                z3.Implies(z3.And(done, e["active"]), lists_ok)]

    def frame(self, H, st, a, dones):
        """Of the objects that exist at entry, only the own checkers of accessors settled with contracts had a list attribute
        re-assigned (everything else the function writes is the namespace entry and objects it allocates)."""
        r = z3.Int("r!fr")
        es = [self.effective_at(H, a, w) for w in range(3)]
        written = z3.Or([z3.And(dones[w], es[w]["active"], es[w]["k0"] != NONE, r == es[w]["k0"]) for w in range(3)])
        return [qforall([r], z3.Implies(z3.And(r < H.ctr, z3.Not(written)), attr(st, r, LISTS[x]) == attr(H, r, LISTS[x])), patterns=[attr(st, r, LISTS[x])])
                for x in ("pre", "snap", "post")]

    # -- helpers ----------------------------------------------------------------------------------------------------------
    def value(self, st, a):
        return z3.Select(val(st, a["namespace"].t), a["key"].t)

    def own(self, H, a, w):
        return attr(H, self.value(H, a), ACCN[w])

    def own_checker(self, H, a, w):
        """The checker of accessor w of the property itself (none if the accessor is absent)."""
        f = self.own(H, a, w)
        return z3.If(f != NONE, found(H, f), NONE)

    def slot_of(self, st):
        """Which accessor the current `func` is (the code compares with value.fget, then value.fset)."""
        i = st.ghost.get("i:[value.fget, value.fset, value.fdel]#0")
        if i is not None:
            return i  # the index of the accessor loop (a numeral: that loop is verified per accessor)
        f = st.vars["func"].t
        return z3.If(f == self.own(self.pre, self.a, 0), z3.IntVal(0), z3.If(f == self.own(self.pre, self.a, 1), z3.IntVal(1), z3.IntVal(2)))

    @staticmethod
    def shares(H, b, key, s, k0):
        kb = base_acc_checker(H, b, key, s)
        return z3.And(kb != NONE, kb == k0)

    def shared(self, H, a, w):
        j = z3.Int("j!px")
        bs = lst(H, a["bases"].t)
        k0 = self.own_checker(H, a, w)
        return z3.Exists([j], z3.And(j >= 0, j < z3.Length(bs), provides(H, bs[j], a["key"].t, z3.IntVal(w)), self.shares(H, bs[j], a["key"].t, z3.IntVal(w), k0)))

    def property_call(self, ex, st, node, args, kwargs):
        o = st.alloc(T_OBJ, "property")
        for a in ACCN:
            st.put("attr:" + a, o, ex.to_ref(st, kwargs[a]))
        st.assume(ISPROPERTY(o), z3.Not(ISFUNCTION(o)))
        return [(st, V("ref", o, None))]

    def effective(self, c, w):
        return self.effective_at(c.pre, c.a, w)

    def effective_at(self, H, a, w):
        key, bases = a["key"].t, a["bases"].t
        n = z3.Length(lst(H, bases))
        s = z3.IntVal(w)
        f = self.own(H, a, w)
        k0 = self.own_checker(H, a, w)
        L = lambda x: z3.If(k0 != NONE, lst(H, attr(H, k0, LISTS[x])), z3.Empty(SeqI))
        open_ = POPEN(bases, key, s, n)
        e = z3.Empty(SeqI)
        pre = z3.Concat(z3.If(open_, e, PCAT["pre"](bases, key, s, n)), L("pre"))
        post = z3.Concat(PCAT["post"](bases, key, s, n), L("post"))
        snap = z3.Concat(PCAT["snap"](bases, key, s, n), L("snap"))
        present = f != NONE
        sh = z3.And(present, self.shared(H, a, w))
        merged = z3.And(present, z3.Not(sh))
        reject = z3.And(merged, open_, z3.Length(L("pre")) > 0)
        dup = z3.And(merged, DecorateNamespaceFunction.dup_in(H, snap))
        active = z3.And(merged, z3.Or(z3.Length(pre) > 0, z3.Length(post) > 0))
        return dict(f=f, k0=k0, pre=pre, post=post, snap=snap, present=present, sh=sh, merged=merged, reject=reject, dup=dup, active=active)

    # -- contract ---------------------------------------------------------------------------------------------------------
    def requires(self, c):
        st, a = c.pre, c.a
        v = self.value(st, a)
        fs = [self.own(st, a, w) for w in range(3)]
        ks = [self.own_checker(st, a, w) for w in range(3)]
        j = z3.Int("j!pr")
        bs = lst(st, a["bases"].t)
        key = a["key"].t
        distinct = z3.And([z3.Implies(z3.And(fs[x] != NONE, fs[y] != NONE), z3.And(fs[x] != fs[y], z3.Or(ks[x] == NONE, ks[x] != ks[y])))
                           for x in range(3) for y in range(3) if x < y])
        kinds = z3.ForAll([j], z3.Implies(z3.And(j >= 0, j < z3.Length(bs), rhas(st, bs[j], key)), z3.And(
            [z3.Implies(z3.And(ks[w] != NONE, x != w), ks[w] != base_acc_checker(st, bs[j], key, z3.IntVal(x))) for w in range(3) for x in range(3)] +
            [ISPROPERTY(rget(st, bs[j], key))])))
        nodup = z3.And([z3.Not(DecorateNamespaceFunction.dup_in(st, z3.If(ks[w] != NONE, lst(st, attr(st, ks[w], LISTS["snap"])), z3.Empty(SeqI)))) for w in range(3)])
        return [("key_in_namespace", z3.Select(dom(st, a["namespace"].t), key)),
                ("value_is_a_property", ISPROPERTY(v)),
                ("python.value_allocated", z3.And(v > 2, v < st.ctr, z3.And([z3.Or(f == NONE, z3.And(f > 2, f < st.ctr)) for f in fs]))),
                ("datainv.accessors_are_different_functions_with_different_checkers", distinct),
                ("datainv.a_checker_serves_one_kind_of_accessor_and_bases_provide_properties", kinds),
                ("datainv.checker_snapshot_names_distinct", nodup)]

    def setup(self, ex, st, a):
        bind_prop(st.copy())
        self.a, self.bases, self.key = a, a["bases"].t, a["key"].t
        self.pre = st.copy()
        j, o = z3.Int("j!pf"), z3.Int("o!pf")
        bs = lst(st, self.bases)
        for w in range(3):
            st.assume(z3.Implies(self.own(st, a, w) != NONE, z3.And(*chain_facts(st, self.own(st, a, w)))))
        from .decorators import has_lists
        for w in range(3):
            # ghost call: find_checker's proved contract (specs/decorators.py: a_found_checker_has_the_lists) applied to each
            # accessor -- a checker that is found is an object existing at entry which carries the lists
            REG.assumptions.add("_decorate_namespace_property: find_checker's proved postcondition (a found checker exists at entry and carries the lists) "
                                "applied to the property's own accessors as a ghost call")
            f, k0 = self.own(st, a, w), found(st, self.own(st, a, w))
            st.assume(z3.Implies(z3.And(f != NONE, k0 != NONE), z3.And(has_lists(st, k0), k0 < st.ctr, k0 <= f)))
        st.assume(z3.ForAll([o], z3.Implies(o < st.ctr, z3.And([attr(st, o, LISTS[w]) < st.ctr for w in LISTS] + [attr(st, o, x) < st.ctr for x in ACCN]))))
        st.assume(z3.ForAll([j], z3.Implies(z3.And(j >= 0, j < z3.Length(bs)), z3.And(
            ANC(bs[j], self.key) != bs[j], ANC(bs[j], self.key) < st.ctr, bs[j] < st.ctr, bs[j] > 2, rget(st, bs[j], self.key) < st.ctr))))

    def modifies(self, c):
        ns = c.ref("namespace")
        m = [("ddom", ns), ("dval", ns), ("dord", ns)]
        for w in range(3):
            k0 = self.own_checker(c.pre, c.a, w)
            for x in LISTS.values():
                m.append(("attr:" + x, k0, k0 != NONE))
        return m

    def ensures_ret(self, c, v):
        pre_st, st, a = c.pre, c.post, c.a
        ns, key = a["namespace"].t, a["key"].t
        val0 = self.value(pre_st, a)
        val1 = z3.Select(val(st, ns), key)
        k = z3.Int("k!pm")
        out = [("key_set_and_order_unchanged", z3.And(z3.Select(dom(st, ns), key), st.get("dord", ns) == pre_st.get("dord", ns))),
               ("other_namespace_entries_untouched", z3.ForAll([k], z3.Implies(k != key, z3.And(
                   z3.Select(dom(st, ns), k) == z3.Select(dom(pre_st, ns), k), z3.Select(val(st, ns), k) == z3.Select(val(pre_st, ns), k))))),
               ("the_entry_stays_a_property", ISPROPERTY(val1))]
        changed = []
        for w in range(3):
            e = self.effective(c, w)
            X = attr(st, val1, ACCN[w])
            new = z3.And(e["active"], e["k0"] == NONE)
            changed.append(new)
            K = z3.If(e["k0"] != NONE, e["k0"], X)
            lists_ok = z3.And([z3.And(attr(st, K, LISTS[x]) >= pre_st.ctr, lst(st, attr(st, K, LISTS[x])) == e[x]) for x in ("pre", "snap", "post")])
            j = z3.Int("j!pu%d" % w)
            bs = lst(pre_st, a["bases"].t)
            out += [("%s.accepted" % ACCN[w], z3.And(z3.Not(e["reject"]), z3.Not(e["dup"]))),
                    ("%s.absent_or_shared_or_without_contracts_is_left_alone" % ACCN[w], z3.Implies(z3.Not(new), X == e["f"])),
                    ("%s.new_checker_wraps_the_accessor" % ACCN[w], z3.Implies(new, z3.And(X >= pre_st.ctr, attr(st, X, "__wrapped__") == e["f"]))),
                    ("%s.effective_contracts_are_bases_then_own" % ACCN[w], z3.Implies(e["active"], lists_ok)),
                    ("%s.contracts_of_every_base_are_left_as_they_were" % ACCN[w], z3.Or(z3.Not(e["present"]), e["sh"], z3.ForAll([j], z3.Implies(
                        z3.And(j >= 0, j < z3.Length(bs), provides(pre_st, bs[j], key, z3.IntVal(w))), z3.Not(self.shares(pre_st, bs[j], key, z3.IntVal(w), e["k0"]))))))]
        out.append(("same_property_object_unless_an_accessor_got_a_new_checker", z3.Implies(z3.Not(z3.Or(changed)), val1 == val0)))
        return out

    def ensures_raise(self, c, e_):
        conds = []
        for w in range(3):
            e = self.effective(c, w)
            conds.append(z3.Or(e["reject"], e["dup"], z3.And(e["active"], e["k0"] == NONE, z3.Or(SIG_RAISES(e["f"]), DWC.reserved(type("C", (), {"ref": lambda s, n, f=e["f"]: f, "pre": c.pre})())))))
        return [("only_documented_rejections", z3.Or(conds))]


DNP = REG.register(DecorateNamespaceProperty())
META_SPECS.append(DNP)

"""icontract/_checkers.py::add_invariant_checks -- which members of a class get an invariant-checking wrapper (C03).

The postconditions are written from the statement of C03: public and special (dunder) methods defined in Python and
property accessors are wrapped; non-public methods, class and static methods, __repr__ and __getattribute__ are never
touched; the constructor is wrapped as a constructor.  What the statement leaves open (C-level slot wrappers, members of a
class whose relevant invariant list is empty) follows the code.

Model.  dir(cls) is a trusted external: a list of pairwise distinct names, each resolvable on the class.  The wrapper
factories _decorate_with_invariants / _decorate_new_with_invariants are assumed contracts (their closures are units of
their own, specs/invariants.py): the function itself if it is already an invariant checker, otherwise a fresh function
object w with w.__wrapped__ == func that is an invariant checker of the requested kind."""
import z3

from pyvc.base import V, NONE, TRUE, FALSE, I, B, SeqI, T_OBJ, T_FUNC, T_LIST, T_TUPLE, TY, ISINST, clsref, objref, fresh, vbool, qforall, distinct_elements, LIST_INDEX
from pyvc.engine import FnSpec
from pyvc.symex import Raise
from .lib import REG, S, builtin_exc, dom, val, lst, attr
from .classes import rhas, rget, own_has, own_get, anc_facts, ANC
from .metaclass import ISFUNCTION, ISPROPERTY
from .types import SIG_RAISES

DIRSEQ = z3.Function("dir_of", I, SeqI)  # names dir(cls) lists (trusted)
SLOT = clsref("wrapper_descriptor")
REG.globals["_SLOT_WRAPPER_TYPE"] = V("ref", SLOT, "class")
REG.globals["property"] = V("ref", clsref("property"), "class")
OBJECT_INIT = objref("object.__init__")
REG.globals["object.__init__"] = V("ref", OBJECT_INIT)
REG.globals["icontract._types.Invariant"] = V("ref", clsref("Invariant"), "class")
STATIC_ENTRY = z3.Function("getattr_static", I, I, I)  # (class, name) -> the raw entry found without the descriptor protocol
ALREADY = z3.Function("already_decorated_with_invariants", I, B)
NAME_OF = z3.Function("function___name__", I, I)
STARTS = z3.Function("str_startswith", I, I, B)
ENDS = z3.Function("str_endswith", I, I, B)
REG.external("dir", "dir(cls): pairwise distinct names, each resolvable on the class (language reference: object.__dir__)")
REG.external("inspect.getattr_static", "the raw namespace entry along the MRO, without invoking descriptors")

EXEMPT = ["__new__", "__repr__", "__getattribute__"]
# ghost state: the names selected so far as methods / as properties (updated where the code appends to its two lists)

def isslot(v):
    return ISINST(v, SLOT)


def public(nm):
    """Not `_x` / `__x`: a leading underscore is allowed only for dunder names."""
    return z3.Not(z3.And(STARTS(nm, S("_")), z3.Not(z3.And(STARTS(nm, S("__")), ENDS(nm, S("__"))))))


def is_classmethod_of(H, v, k):
    return z3.And(H.get("has:__self__", v), attr(H, v, "__self__") == k)


def gate(H, k, nm):
    """The list that decides whether a member needs a wrapper at all is non-empty."""
    oncall = lst(H, rget(H, k, "__invariants_on_call__"))
    onset = lst(H, rget(H, k, "__invariants_on_setattr__"))
    return z3.If(nm == S("__setattr__"), z3.Length(onset) > 0, z3.Length(oncall) > 0)


def kind_f(H, k, nm):
    """What the code selects as a method (derived from the code; the ensures below restate the statement)."""
    v = rget(H, k, nm)
    return z3.And(z3.And([nm != S(x) for x in EXEMPT + ["__init__"]]), gate(H, k, nm), z3.Or(ISFUNCTION(v), isslot(v)), public(nm),
                  z3.Not(is_classmethod_of(H, v, k)), z3.Not(ISINST(STATIC_ENTRY(k, nm), clsref("staticmethod"))))


def kind_p(H, k, nm):
    v = rget(H, k, nm)
    return z3.And(z3.And([nm != S(x) for x in EXEMPT + ["__init__"]]), gate(H, k, nm), z3.Not(z3.Or(ISFUNCTION(v), isslot(v))), ISPROPERTY(v), public(nm))


# abbreviations with definitional axioms (assumed in setup): keep the quantified invariants small
KF = z3.Function("code_selects_as_method", I, I, B)  # (cls, name)
KP = z3.Function("code_selects_as_property", I, I, B)
ORIG = z3.Function("value_looked_up_at_entry", I, I, I)  # (cls, name) -> getattr(cls, name) in the pre-state
INDIR = z3.Function("dir_lists", I, I, B)  # (cls, name): dir(cls) lists the name
DIDX = z3.Function("dir_index", I, I, I)  # (cls, name) -> its position in dir(cls)
ArrIB_ = z3.ArraySort(I, B)
ArrII_ = z3.ArraySort(I, I)


def is_checker(st, w, f, is_init):
    """w is what _decorate_with_invariants(func=f, is_init) returns (its proved contract, specs/invfactory.py): f itself if it
    already checks invariants, else a fresh function wrapping f which is the closure for this kind of member -- closure 0
    (constructor), 1 (async method) or 2 (method)."""
    from pyvc.registry import IS_COROFN
    which = z3.IntVal(0) if is_init else z3.If(IS_COROFN(f), z3.IntVal(1), z3.IntVal(2))
    fresh_w = z3.And(attr(st, w, "__wrapped__") == f, attr(st, w, "__is_invariant_check__") == TRUE, attr(st, w, "__defidx__") == which, attr(st, w, "env:func") == f)
    return z3.If(ALREADY(f), w == f, fresh_w)


def is_checked_property(st, p, old):
    acc = []
    for a in ("fget", "fset", "fdel"):
        o = attr(st, old, a)
        acc.append(z3.If(o == NONE, attr(st, p, a) == NONE, is_checker(st, attr(st, p, a), o, False)))
    return z3.And(ISPROPERTY(p), *acc)


class AddInvariantChecks(FnSpec):
    addr = "_checkers.py::add_invariant_checks"
    hints = {"cls": "class"}

    # -- loop 1: the scan of dir(cls) ----------------------------------------------------------------------------------
    class Scan:
        trace = False
        var_hints = {"value": None, "bound_value": None, "init_func": None, "name": None}
        ghost_vars = {"NSF": SeqI, "NSP": SeqI, "NSF.mem": ArrIB_, "NSP.mem": ArrIB_, "NSF.pos": ArrII_, "NSP.pos": ArrII_}

        def __init__(self, spec):
            self.spec = spec

        def modifies(self, c):
            b = c.entry.ctr  # the pairs are allocated in this loop; the two lists were allocated just before it
            return [("list", c.entry.vars["names_funcs"].t), ("list", c.entry.vars["names_properties"].t), ("list", lambda r: r >= b)]

        def inv(self, c):
            sp, st = self.spec, c.st
            k, H = sp.cls, sp.H
            out = []
            p, q, nm = z3.Int("p!sc"), z3.Int("q!sc"), z3.Int("nm!sc")
            D = DIRSEQ(k)
            for var, g, K in (("names_funcs", "NSF", KF), ("names_properties", "NSP", KP)):
                L = lst(st, st.vars[var].t)
                sel, mem, pos = st.ghost[g], st.ghost[g + ".mem"], st.ghost[g + ".pos"]
                rng = z3.And(p >= 0, p < z3.Length(sel))
                out.append(z3.Length(L) == z3.Length(sel))
                # every entry is a fresh pair (name, the value looked up on the class) of a selected name
                out.append(qforall([p], z3.Implies(rng, z3.And(L[p] >= c.entry.ctr, L[p] < st.ctr))))  # allocated in this loop: after both lists
                out.append(qforall([p], z3.Implies(rng, lst(st, L[p]) == z3.Concat(z3.Unit(sel[p]), z3.Unit(ORIG(k, sel[p]))))))
                out.append(qforall([p], z3.Implies(rng, z3.Select(mem, sel[p]))))
                # the ghost set: exactly names the code's tests select, listed by dir(cls), each at a position of the list
                out.append(qforall([nm], z3.Implies(z3.Select(mem, nm), z3.And(K(k, nm), INDIR(k, nm), ORIG(k, nm) < sp.pre_ctr, z3.Select(pos, nm) >= 0, z3.Select(pos, nm) < z3.Length(sel),
                                                                             sel[z3.Select(pos, nm)] == nm)), patterns=[z3.Select(mem, nm)]))
                out.append(qforall([nm], z3.Implies(z3.Select(mem, nm), DIDX(k, nm) < c.i), patterns=[z3.Select(mem, nm)]))  # (only names already seen)
                out.append(qforall([p], z3.Implies(rng, z3.Select(pos, sel[p]) == p)))  # (hence no name twice)
                # and no selected name among those seen so far is missing
                out.append(qforall([nm], z3.Implies(z3.And(INDIR(k, nm), DIDX(k, nm) < c.i, K(k, nm)), z3.Select(mem, nm)), patterns=[K(k, nm)]))
            f0 = st.vars["init_func"].t
            out.append(z3.Or(f0 == NONE, z3.And(f0 == ORIG(k, S("__init__")), INDIR(k, S("__init__")))))
            out.append(qforall([q], z3.Implies(z3.And(q >= 0, q < c.i, D[q] == S("__init__")), f0 == ORIG(k, S("__init__")))))
            return out

        def at_exit(self, ex, st, c):
            sp = self.spec
            k, H = sp.cls, sp.H
            nm = z3.Int("nm!l1")
            MF, MP = st.ghost["NSF.mem"], st.ghost["NSP.mem"]
            ex.oblige(st, "scan.every_method_the_statement_names_is_selected", qforall([nm], z3.Implies(sp.must_f(H, k, nm), z3.Select(MF, nm))), kind="lemma")
            ex.oblige(st, "scan.every_property_the_statement_names_is_selected", qforall([nm], z3.Implies(sp.must_p(H, k, nm), z3.Select(MP, nm))), kind="lemma")
            ex.oblige(st, "scan.nothing_the_statement_excludes_is_selected", qforall([nm], z3.Implies(sp.must_not(H, k, nm), z3.And(z3.Not(z3.Select(MF, nm)), z3.Not(z3.Select(MP, nm))))), kind="lemma")
            ex.oblige(st, "scan.no_name_is_selected_both_ways_nor_a_constructor_name", qforall([nm], z3.Implies(z3.Or(z3.Select(MF, nm), z3.Select(MP, nm)), z3.And(
                z3.Not(z3.And(z3.Select(MF, nm), z3.Select(MP, nm))), nm != S("__init__"), nm != S("__new__")))), kind="lemma")

    # -- loops 2 and 3: installing the wrappers ------------------------------------------------------------------------
    class Install:
        trace = False
        var_hints = {"wrapper": None, "func": None, "prop": None, "new_prop": None, "name": None}

        def __init__(self, spec, var, g, good):
            self.spec, self.var, self.g, self.good = spec, var, g, good

        def source(self, ex, st, it):
            """The pairs are (selected name, value looked up at entry) -- proved from the scan's invariant once per element,
            then the two components are named (keeps the terms of the loop body small)."""
            sp = self.spec
            seq = lst(st, it.t)
            sel = st.ghost[self.g]

            def binder(ex, s, i):
                nm, fn = fresh("name"), fresh("func")
                n = ex.ordinal("elem:" + self.var)
                ex.oblige(s, "element[%s]#%d.is_the_selected_name_with_the_value_looked_up" % (self.var, n),
                          lst(s, seq[i]) == z3.Concat(z3.Unit(sel[i]), z3.Unit(ORIG(sp.cls, sel[i]))), kind="lemma")
                s.assume(nm == sel[i], fn == ORIG(sp.cls, sel[i]))
                return V("static", None, (V("ref", nm, None), V("ref", fn, None)))
            return seq, binder

        def modifies(self, c):
            b, k = c.entry.ctr, self.spec.cls  # attributes are written on objects allocated in this loop only
            return [("ddom", k), ("dval", k), ("dord", k)] + [(f, (lambda r: r >= b)) for f in ("attr:__wrapped__", "has:__wrapped__", "attr:__is_invariant_check__", "attr:__defidx__",
                                                                                              "attr:__def__", "attr:env:func", "attr:env:param_names", "attr:env:new_func",
                                                                                              "attr:fget", "attr:fset", "attr:fdel", "list")]

        def inv(self, c):
            sp, st, E = self.spec, c.st, c.entry
            k = sp.cls
            mem, pos = st.ghost[self.g + ".mem"], st.ghost[self.g + ".pos"]
            nm = z3.Int("nm!in")
            handled = z3.And(z3.Select(mem, nm), z3.Select(pos, nm) < c.i)  # the names at positions < i of the list (each occurs once)
            done = qforall([nm], z3.Implies(handled, z3.And(own_has(st, k, nm), own_get(st, k, nm) < st.ctr, self.good(st, own_get(st, k, nm), ORIG(k, nm)))),
                           patterns=[z3.Select(mem, nm)])
            rest = qforall([nm], z3.Implies(z3.Not(handled), z3.And(own_has(st, k, nm) == own_has(E, k, nm), own_get(st, k, nm) == own_get(E, k, nm))),
                           patterns=[z3.Select(mem, nm)])
            return [done, rest]

        def at_exit(self, ex, st, c):
            sp, E = self.spec, c.entry
            k = sp.cls
            mem = st.ghost[self.g + ".mem"]
            nm = z3.Int("nm!lx")
            ex.oblige(st, "install[%s].every_selected_name_is_wrapped" % self.var, qforall([nm], z3.Implies(z3.Select(mem, nm), z3.And(
                own_has(st, k, nm), own_get(st, k, nm) < st.ctr, self.good(st, own_get(st, k, nm), ORIG(k, nm)))), patterns=[z3.Select(mem, nm)]), kind="lemma")
            ex.oblige(st, "install[%s].every_other_entry_is_untouched" % self.var, qforall([nm], z3.Implies(z3.Not(z3.Select(mem, nm)), z3.And(
                own_has(st, k, nm) == own_has(E, k, nm), own_get(st, k, nm) == own_get(E, k, nm))), patterns=[z3.Select(mem, nm)]), kind="lemma")

    def __init__(self):
        self.loops = {"dir(cls)": self.Scan(self),
                      "names_funcs": self.Install(self, "names_funcs", "NSF", lambda st, w, f: is_checker(st, w, f, False)),
                      "names_properties": self.Install(self, "names_properties", "NSP", lambda st, p, old: z3.And(
                          is_checked_property(st, p, old), z3.And([attr(st, p, a) < st.ctr for a in ("fget", "fset", "fdel")])))}
        self.methods = {"append": self.append_hook}
        self.calls = {"dir": self.dir_call, "inspect.getattr_static": self.getattr_static, "_decorate_with_invariants": self.decorate(False),
                      "_decorate_new_with_invariants": self.decorate(True), "property": self.property_call}

    def append_hook(self, ex, st, node, recv, args, kwargs):
        """Ghost update: the name appended to names_funcs / names_properties is appended to the ghost sequence too."""
        import ast
        tgt = ast.unparse(node.func.value)
        g = {"names_funcs": "NSF", "names_properties": "NSP"}.get(tgt)
        if g is not None and args[0].kind == "static" and isinstance(args[0].py, tuple):
            nm = ex.to_ref(st, args[0].py[0])
            K = KF if g == "NSF" else KP
            n = ex.ordinal("ghost:" + g)
            # lemmas (proved here once, then available to the invariant's preservation): the appended name is one the
            # specification selects, dir(cls) lists it, and the value paired with it is the one looked up at entry
            ex.oblige(st, "append[%s]#%d.the_name_is_selected_by_the_specification" % (tgt, n), K(self.cls, nm), kind="lemma")
            ex.oblige(st, "append[%s]#%d.the_name_is_listed_by_dir" % (tgt, n), INDIR(self.cls, nm), kind="lemma")
            ex.oblige(st, "append[%s]#%d.the_value_is_the_one_looked_up" % (tgt, n), ex.to_ref(st, args[0].py[1]) == ORIG(self.cls, nm), kind="lemma")
            ex.oblige(st, "append[%s]#%d.the_value_existed_at_entry" % (tgt, n), ORIG(self.cls, nm) < self.pre_ctr, kind="lemma")
            ex.oblige(st, "append[%s]#%d.the_name_is_not_selected_the_other_way" % (tgt, n), z3.Not((KP if g == "NSF" else KF)(self.cls, nm)), kind="lemma")
            ex.oblige(st, "append[%s]#%d.the_name_was_not_appended_before" % (tgt, n), z3.Not(z3.Select(st.ghost[g + ".mem"], nm)), kind="lemma")
            st.ghost[g + ".pos"] = z3.Store(st.ghost[g + ".pos"], nm, z3.Length(st.ghost[g]))
            st.ghost[g + ".mem"] = z3.Store(st.ghost[g + ".mem"], nm, z3.BoolVal(True))
            st.ghost[g] = z3.Concat(st.ghost[g], z3.Unit(nm))
        return None

    # -- externals and assumed callees ------------------------------------------------------------------------------------
    def dir_call(self, ex, st, node, args, kwargs):
        k = args[0].t
        r = ex.new_list(st, DIRSEQ(k))
        return [(st, r)]

    def getattr_static(self, ex, st, node, args, kwargs):
        return [(st, V("ref", STATIC_ENTRY(args[0].t, ex.to_ref(st, args[1])), None))]

    def decorate(self, is_new):
        def h(ex, st, node, args, kwargs):
            # the factories are under contract (specs/invfactory.py): the call site sees their contracts only
            from pyvc.engine import apply_contract
            from pyvc import extract
            from .invfactory import DWI, DNWI
            spec = DNWI if is_new else DWI
            out = apply_contract(spec, extract.get_unit(spec.addr).node)(ex, st, node, args, kwargs)
            for s_, r in out:
                if isinstance(r, V):
                    s_.assume(ISFUNCTION(r.t), z3.Not(ISPROPERTY(r.t)), z3.Not(isslot(r.t)))  # (a function, old or new)
            return out
        return h

    def property_call(self, ex, st, node, args, kwargs):
        o = st.alloc(T_OBJ, "property")
        for a in ("fget", "fset", "fdel"):
            st.put("attr:" + a, o, ex.to_ref(st, kwargs[a]))
        st.assume(ISPROPERTY(o), z3.Not(ISFUNCTION(o)), z3.Not(isslot(o)))
        return [(st, V("ref", o, None))]

    def truth_hook(self, ex, st, v, label):
        """Functions, slot wrappers and other non-None objects held in init_func / prop.fget... are truthy; None is falsy."""
        REG.assumptions.add("python.truthiness: a function or slot-wrapper object is truthy (add_invariant_checks: init_func, prop.fget/fset/fdel)")
        return [(st, v.t != NONE)]

    # -- contract ---------------------------------------------------------------------------------------------------------
    def requires(self, c):
        st, k = c.pre, c.ref("cls")
        invs = rget(st, k, "__invariants__")
        L = lst(st, invs)
        j = z3.Int("j!dir")
        D = DIRSEQ(k)
        lists_ok = z3.And([z3.And(rhas(st, k, d), rget(st, k, d) > 2, rget(st, k, d) < st.ctr, TY(rget(st, k, d)) == T_LIST)
                           for d in ("__invariants__", "__invariants_on_call__", "__invariants_on_setattr__")])
        return [("python.class_allocated", z3.And(k > 2, k < st.ctr)),
                ("caller.the_class_has_the_three_invariant_lists", lists_ok),
                ("caller.at_least_one_invariant_and_the_last_is_an_Invariant", z3.And(z3.Length(L) > 0, ISINST(L[z3.Length(L) - 1], clsref("Invariant")))),
                ("python.dir_lists_resolvable_distinct_names", z3.And(distinct_elements(D), qforall([j], z3.Implies(z3.And(j >= 0, j < z3.Length(D)), z3.And(
                    rhas(st, k, D[j]), ANC(k, D[j]) != k, ANC(k, D[j]) < st.ctr, rget(st, k, D[j]) < st.ctr, D[j] < 0))))),
                ("python.exclusive_kinds", qforall([j], z3.Implies(z3.And(j >= 0, j < z3.Length(D)), z3.And(
                    z3.Not(z3.And(ISFUNCTION(rget(st, k, D[j])), ISPROPERTY(rget(st, k, D[j])))), z3.Not(z3.And(isslot(rget(st, k, D[j])), ISPROPERTY(rget(st, k, D[j])))))))),
                ("python.init_is_a_function_or_a_slot_wrapper", z3.Implies(rhas(st, k, "__init__"), z3.And(rget(st, k, "__init__") != NONE, z3.Or(ISFUNCTION(rget(st, k, "__init__")), isslot(rget(st, k, "__init__"))))))]

    def setup(self, ex, st, a):
        self.cls, self.pre_ctr = a["cls"].t, st.ctr
        self.H = st.copy()
        nm = z3.Int("nm!def")
        k = self.cls
        st.assume(qforall([nm], KF(k, nm) == kind_f(self.H, k, nm), patterns=[KF(k, nm)]),
                  qforall([nm], KP(k, nm) == kind_p(self.H, k, nm), patterns=[KP(k, nm)]),
                  qforall([nm], ORIG(k, nm) == rget(self.H, k, nm), patterns=[ORIG(k, nm)]))
        for g in ("NSF", "NSP"):
            st.ghost[g] = z3.Empty(SeqI)
            st.ghost[g + ".mem"] = z3.K(I, z3.BoolVal(False))
            st.ghost[g + ".pos"] = z3.K(I, z3.IntVal(0))
        # dir(cls) as a membership predicate with an index (definitional: the names are pairwise distinct)
        D = DIRSEQ(k)
        j = z3.Int("j!dx")
        st.assume(qforall([nm], INDIR(k, nm) == z3.And(DIDX(k, nm) >= 0, DIDX(k, nm) < z3.Length(D), D[DIDX(k, nm)] == nm), patterns=[INDIR(k, nm)]),
                  qforall([j], z3.Implies(z3.And(j >= 0, j < z3.Length(D)), DIDX(k, D[j]) == j)))
        for d in ("__invariants__", "__invariants_on_call__", "__invariants_on_setattr__", "__init__", "__new__"):
            st.assume(*anc_facts(st, self.cls, d))

    def modifies(self, c):
        k, b = c.ref("cls"), c.pre.ctr
        return [("ddom", k), ("dval", k), ("dord", k)]

    # what the statement of C03 demands -------------------------------------------------------------------------------
    def must_f(self, H, k, nm):
        """A public or dunder method defined in Python, not exempt, not a class or static method, and some invariant applies to it."""
        v = rget(H, k, nm)
        return z3.And(INDIR(k, nm), ISFUNCTION(v), public(nm), z3.And([nm != S(x) for x in EXEMPT + ["__init__"]]),
                      z3.Not(is_classmethod_of(H, v, k)), z3.Not(ISINST(STATIC_ENTRY(k, nm), clsref("staticmethod"))), gate(H, k, nm))

    def must_p(self, H, k, nm):
        v = rget(H, k, nm)
        return z3.And(INDIR(k, nm), ISPROPERTY(v), z3.Not(ISFUNCTION(v)), z3.Not(isslot(v)), public(nm),
                      z3.And([nm != S(x) for x in EXEMPT + ["__init__"]]), gate(H, k, nm))

    def must_not(self, H, k, nm):
        v = rget(H, k, nm)
        return z3.And(nm != S("__init__"), nm != S("__new__"),
                      z3.Or(z3.Not(public(nm)), nm == S("__repr__"), nm == S("__getattribute__"),
                            z3.And(z3.Or(ISFUNCTION(v), isslot(v)), z3.Or(is_classmethod_of(H, v, k), ISINST(STATIC_ENTRY(k, nm), clsref("staticmethod"))))))

    def ensures_ret(self, c, v):
        pre, st, k = c.pre, c.post, c.ref("cls")
        nm = z3.Int("nm!aic")
        init = rget(pre, k, "__init__")
        has_init = INDIR(k, S("__init__"))
        via_new = z3.And(init == OBJECT_INIT, rhas(pre, k, "__new__"))
        return [
            ("public_and_dunder_python_methods_are_wrapped", qforall([nm], z3.Implies(self.must_f(pre, k, nm), z3.And(
                own_has(st, k, nm), is_checker(st, own_get(st, k, nm), rget(pre, k, nm), False))))),
            ("property_accessors_are_wrapped", qforall([nm], z3.Implies(self.must_p(pre, k, nm), z3.And(
                own_has(st, k, nm), is_checked_property(st, own_get(st, k, nm), rget(pre, k, nm)))))),
            ("non_public_class_static_repr_getattribute_are_never_touched", qforall([nm], z3.Implies(self.must_not(pre, k, nm), z3.And(
                own_has(st, k, nm) == own_has(pre, k, nm), own_get(st, k, nm) == own_get(pre, k, nm))))),
            ("the_constructor_is_wrapped_as_a_constructor", z3.Implies(z3.And(has_init, z3.Not(via_new)), z3.And(
                own_has(st, k, "__init__"), is_checker(st, own_get(st, k, "__init__"), init, True)))),
            ("without_a_python_constructor___new___is_wrapped", z3.Implies(z3.And(has_init, via_new), z3.And(
                own_has(st, k, "__new__"), z3.If(ALREADY(rget(pre, k, "__new__")), own_get(st, k, "__new__") == rget(pre, k, "__new__"),
                                                 z3.And(attr(st, own_get(st, k, "__new__"), "__wrapped__") == rget(pre, k, "__new__"),
                                                        attr(st, own_get(st, k, "__new__"), "__is_invariant_check__") == TRUE))))),
        ]

    def ensures_raise(self, c, e):
        return [("only_if_a_signature_cannot_be_read", z3.BoolVal(True))]


ADDINV = REG.register(AddInvariantChecks())


# ---- call sites ---------------------------------------------------------------------------------------------------------
# Callers (invariant.__call__, DBCMeta.__new__) keep their block-event view of the call (specs/metaclass.py); what they owe
# the callee -- its `caller.*` preconditions, which are the asserts at the top of its body -- is an obligation there.
from pyvc.engine import Ctx  # noqa: E402
from .metaclass import add_invariant_checks_call as _block_view  # noqa: E402


def _call_site(ex, st, node, args, kwargs):
    a = {"cls": kwargs.get("cls") or args[0]}
    n = ex.ordinal("call:add_invariant_checks")
    for d in ("__invariants__", "__invariants_on_call__", "__invariants_on_setattr__"):
        st.assume(*anc_facts(st, a["cls"].t, d))
    for nm, f in ADDINV.requires(Ctx(ex, st, st, a)):
        if not nm.startswith("caller."):
            continue
        if "DBCMeta" in ex.unit_name:
            # not carried yet: that the lists merged by _dbc_decorate_namespace (each proved per list in _collapse_invariants) are what
            # the new class resolves, and that inherited lists are non-empty lists of Invariant objects (a data invariant of classes)
            st.assume(f)
            REG.assumptions.add("DBCMeta.__new__ -> add_invariant_checks: %s (assumed at this call site; proved at invariant.__call__'s)" % nm)
        else:
            ex.oblige(st, "call[add_invariant_checks]#%d.requires.%s" % (n, nm), f, kind="requires")
    return _block_view(ex, st, node, args, kwargs)


REG.calls["icontract._checkers.add_invariant_checks"] = _call_site
REG.calls["add_invariant_checks"] = _call_site

"""icontract/_checkers.py::_decorate_with_invariants and _decorate_new_with_invariants -- the factories that pick and build the
invariant-checking closure for a member (C03): which of the three closures is installed, around what, with which captured
variables.  The closures themselves are units of their own (specs/invariants.py); their `closure.*`-style preconditions are
what these postconditions establish.  `_already_decorated_with_invariants` (a walk over the decorator stack, a generator)
is a trusted predicate."""
import z3

from pyvc.base import V, NONE, TRUE, FALSE, I, B, SeqI, T_FUNC, fresh, vbool
from pyvc.engine import FnSpec
from pyvc.registry import IS_COROFN
from .lib import REG, S, builtin_exc, dom, val, lst, attr
from .decorate import SIGOF, NAMES
from .types import SIG_RAISES, SIG_EXC
from .addinv import ALREADY

REG.external("_checkers._already_decorated_with_invariants", "a pure predicate of the function (some object on its __wrapped__ chain is marked __is_invariant_check__)")


def _already(ex, st, node, args, kwargs):
    return [(st, vbool(ALREADY(ex.to_ref(st, kwargs.get("func") or args[0]))))]


class DecorateWithInvariants(FnSpec):
    addr = "_checkers.py::_decorate_with_invariants"
    kinds = {"is_init": "bool"}
    ret_hint = "func"

    def __init__(self):
        self.calls = {"_already_decorated_with_invariants": _already}

    def ensures_ret(self, c, v):
        pre, st, f, w = c.pre, c.post, c.ref("func"), v.t
        is_init = c.a["is_init"].t
        which = z3.If(is_init, z3.IntVal(0), z3.If(IS_COROFN(f), z3.IntVal(1), z3.IntVal(2)))
        fresh_ok = z3.And(
            w >= pre.ctr, st.get("has:__wrapped__", w), attr(st, w, "__wrapped__") == f, attr(st, w, "__is_invariant_check__") == TRUE,
            attr(st, w, "__defidx__") == which, attr(st, w, "__def__") == z3.If(which == 1, S("async"), S("sync")),
            attr(st, w, "env:func") == f, attr(st, w, "env:param_names") >= pre.ctr, lst(st, attr(st, w, "env:param_names")) == NAMES(SIGOF(f)),
            z3.Not(SIG_RAISES(f)))
        return [("a_function_already_checking_invariants_is_returned_as_it_is", z3.Implies(ALREADY(f), z3.And(w == f, st.ctr == pre.ctr))),
                ("else_the_closure_for_this_kind_of_member_around_the_function", z3.Implies(z3.Not(ALREADY(f)), fresh_ok))]

    def ensures_raise(self, c, e):
        f = c.ref("func")
        return [("only_if_the_signature_cannot_be_read", z3.And(z3.Not(ALREADY(f)), SIG_RAISES(f), e.t == SIG_EXC(f)))]


class DecorateNewWithInvariants(FnSpec):
    addr = "_checkers.py::_decorate_new_with_invariants"
    ret_hint = "func"
    may_raise = False

    def __init__(self):
        self.calls = {"_already_decorated_with_invariants": _already}

    def ensures_ret(self, c, v):
        pre, st, f, w = c.pre, c.post, c.ref("new_func"), v.t
        fresh_ok = z3.And(w >= pre.ctr, st.get("has:__wrapped__", w), attr(st, w, "__wrapped__") == f, attr(st, w, "__is_invariant_check__") == TRUE,
                          attr(st, w, "__def__") == S("sync"), attr(st, w, "env:new_func") == f)
        return [("a_function_already_checking_invariants_is_returned_as_it_is", z3.Implies(ALREADY(f), z3.And(w == f, st.ctr == pre.ctr))),
                ("else_the___new___closure_around_the_function", z3.Implies(z3.Not(ALREADY(f)), fresh_ok))]


DWI = DecorateWithInvariants()
DNWI = DecorateNewWithInvariants()
REG.fnspecs[DWI.addr] = DWI
REG.fnspecs[DNWI.addr] = DNWI
INVFACTORY_SPECS = [DWI, DNWI]

"""kwargs_from_call: the closed form of the resolved keyword map (C05), and Python's binding rule (trusted spec)."""
import z3

from pyvc.base import V, NONE, I, B, T_DICT, fresh
from pyvc.engine import FnSpec
from .lib import REG, S, forall, dom, val, lst, attr, qforall

DPOS = z3.Function("ghost_dict_pos", I, I, I)  # (dict, key) -> position in insertion order
from pyvc.base import LIST_INDEX as PIDX  # (name list, name) -> index


def wf_dict(st, d):
    """Python's dict invariant: the insertion-order sequence enumerates the domain without repetition."""
    order, D = st.get("dord", d), dom(st, d)
    j, k = z3.Int("j!wf"), z3.Int("k!wf")
    return z3.And(
        qforall([j], z3.Implies(z3.And(j >= 0, j < z3.Length(order)), z3.And(z3.Select(D, order[j]), DPOS(d, order[j]) == j)), patterns=[order[j]]),
        qforall([k], z3.Implies(z3.Select(D, k), z3.And(DPOS(d, k) >= 0, DPOS(d, k) < z3.Length(order), order[DPOS(d, k)] == k)), patterns=[z3.Select(D, k)]),
    )


def distinct_names(st, pn):
    from pyvc.base import distinct_elements
    return distinct_elements(lst(st, pn))


class RhoModel:
    """Content of the resolved map after `n_def` defaults, `n_pos` positionals and `n_kw` keywords were applied
    (None = all of them). Later stages override earlier ones, as the statement order in the function does."""

    def __init__(self, H, pn, DEF, args, KW, n_def=None, n_pos=None, n_kw=None, po=None):
        self.H, self.pn, self.DEF, self.args, self.KW = H, pn, DEF, args, KW
        self.po = po  # the set of positional-only names (or None): keywords so named do not bind the parameter
        self.n_def, self.n_pos, self.n_kw = n_def, n_pos, n_kw

    def parts(self, k):
        H = self.H
        names, argv = lst(H, self.pn), lst(H, self.args)
        defk = z3.Select(dom(H, self.DEF), k)
        if self.n_def is not None:
            defk = z3.And(defk, DPOS(self.DEF, k) < self.n_def)
        p = PIDX(names, k)
        posk = z3.And(p >= 0, p < z3.Length(names), names[p] == k, p < z3.Length(argv))
        if self.n_pos is not None:
            posk = z3.And(posk, p < self.n_pos)
        kwk = z3.Select(dom(H, self.KW), k)
        if self.po is not None:
            kwk = z3.And(kwk, z3.Not(z3.And(self.po != NONE, z3.Select(H.get("set", self.po), k))))
        if self.n_kw is not None:
            kwk = z3.And(kwk, DPOS(self.KW, k) < self.n_kw)
        return defk, posk, kwk, p

    def indom(self, k):
        defk, posk, kwk, _ = self.parts(k)
        return z3.Or(k == S("_ARGS"), k == S("_KWARGS"), defk, posk, kwk)

    def value(self, k):
        defk, posk, kwk, p = self.parts(k)
        H = self.H
        return z3.If(kwk, z3.Select(val(H, self.KW), k),
                     z3.If(posk, lst(H, self.args)[p],
                           z3.If(defk, z3.Select(val(H, self.DEF), k), z3.If(k == S("_ARGS"), self.args, self.KW))))

    def holds_for(self, st, r):
        k = z3.Int("k!rho")
        Dr, Vr = dom(st, r), val(st, r)
        alt = z3.Select(dom(self.H, self.DEF), k)  # occurs in indom(k)/value(k) of every stage: a second trigger
        return [qforall([k], z3.Select(Dr, k) == self.indom(k), patterns=[z3.Select(Dr, k), alt]),
                qforall([k], z3.Implies(z3.Select(Dr, k), z3.Select(Vr, k) == self.value(k)), patterns=[z3.Select(Vr, k), alt])]


class _Loop:
    trace = False

    def __init__(self, spec, stage):
        self.spec, self.stage = spec, stage

    def modifies(self, c):
        r = c.st.vars["resolved_kwargs"].t
        return [("ddom", r), ("dval", r), ("dord", r)]

    def inv(self, c):
        a = self.spec.a
        n = {"def": (c.i, z3.IntVal(0), z3.IntVal(0)), "pos": (None, c.i, z3.IntVal(0)), "kw": (None, None, c.i)}[self.stage]
        m = RhoModel(c.entry, a["param_names"].t, a["kwdefaults"].t, a["args"].t, a["kwargs"].t, *n, po=a["positional_only"].t if "positional_only" in a else None)
        return m.holds_for(c.st, c.st.vars["resolved_kwargs"].t)


class KwargsFromCall(FnSpec):
    addr = "_checkers.py::kwargs_from_call"
    hints = {"param_names": "list", "kwdefaults": "dict", "args": "tuple", "kwargs": "dict", "positional_only": "set"}
    ret_fresh = T_DICT
    ret_fields = ("ddom", "dval", "dord")
    ret_hint = "dict"
    may_raise = False

    def __init__(self):
        self.loops = {"kwdefaults.items()": _Loop(self, "def"), "enumerate(args)": _Loop(self, "pos"), "kwargs.items()": _Loop(self, "kw")}

    def requires(self, c):
        return [("python.kwdefaults_is_a_dict", wf_dict(c.pre, c.ref("kwdefaults"))), ("python.kwargs_is_a_dict", wf_dict(c.pre, c.ref("kwargs"))),
                ("python.param_names_distinct", distinct_names(c.pre, c.ref("param_names")))]

    def setup(self, ex, st, a):
        self.a = a

    def ensures_ret(self, c, v):
        m = RhoModel(c.pre, c.ref("param_names"), c.ref("kwdefaults"), c.ref("args"), c.ref("kwargs"),
                     po=c.ref("positional_only") if "positional_only" in c.a else None)
        f = m.holds_for(c.post, v.t)
        return [("fresh", v.t >= c.pre.ctr), ("domain", f[0]), ("values", f[1])]


KFC = REG.register(KwargsFromCall())

"""icontract/_decorators.py and the definition-time helpers of _checkers.py (C08 C09 C14 C15 C17 C19)."""
import ast
import z3
from pyvc.base import qforall

from pyvc.base import V, NONE, TRUE, FALSE, I, B, SeqI, T_OBJ, T_LIST, T_FUNC, ISINST, clsref, fresh, vbool, TY
from pyvc.engine import FnSpec
from pyvc.registry import IS_COROFN
from pyvc.symex import Raise
from .lib import REG, S, builtin_exc, dom, val, lst, attr, cause_of
from .decorate import SIGOF, NAMES, DWC, TRACKED_DICT
from .violation import ISFUNCTION, ISMETHOD, SUBCLASS
from .types import SIG_RAISES, SIG_EXC, CONTRACT_INIT, INVARIANT_INIT, SNAPSHOT_INIT

REG.attr_hints.update({"enabled": "bool", "_contract": None, "_snapshot": None, "_invariant": None})

# ---- externals ---------------------------------------------------------------------------------------------------------
REG.external("traceback.extract_stack", "returns a fresh list of frame summaries (possibly empty); no effect on library state")


def _extract_stack(ex, st, node, args, kwargs):
    return [(st, ex.new_list(st, fresh("frames", SeqI)))]


REG.calls["traceback.extract_stack"] = _extract_stack

# the decorator stack below a callable: f, f.__wrapped__, ... (functools.update_wrapper convention; acyclic)
CHAIN = z3.Function("wrapped_chain", I, SeqI)
REG.external("_checkers._walk_decorator_stack", "assumed contract: yields func, func.__wrapped__, ... until an object without __wrapped__ "
             "(6-line generator with a while loop; acyclic chains assumed; a wrapped object is older than its wrapper)")


def chain_facts(st, f):
    ch = CHAIN(f)
    j = z3.Int("j!ch")
    n = z3.Length(ch)
    return [n >= 1, ch[0] == f,
            qforall([j], z3.Implies(z3.And(j >= 0, j < n - 1), z3.And(st.get("has:__wrapped__", ch[j]), attr(st, ch[j], "__wrapped__") == ch[j + 1])), patterns=[ch[j]]),
            z3.Not(st.get("has:__wrapped__", ch[n - 1])),
            qforall([j], z3.Implies(z3.And(j >= 0, j < n), z3.And(ch[j] != NONE, ch[j] < st.ctr, ch[j] <= f)), patterns=[ch[j]])]


def _walk(ex, st, node, args, kwargs):
    f = ex.to_ref(st, kwargs.get("func") or args[0])
    st.assume(*chain_facts(st, f))
    r = ex.new_list(st, CHAIN(f))
    return [(st, r)]


REG.calls["_walk_decorator_stack"] = _walk

# the checker found scanning the first i elements of the chain: the innermost object carrying contract lists
FC = REG.specfun("found_checker", [I, I, I])  # (func, i) -> checker or None


def has_lists(st, o):
    return z3.Or(st.get("has:__preconditions__", o), st.get("has:__postconditions__", o))


def bind_fc(H):
    def d(f, i):
        ch = CHAIN(f)
        return FC(f, i) == z3.If(i <= 0, NONE, z3.If(has_lists(H, ch[i - 1]), ch[i - 1], FC(f, i - 1)))
    FC.defn = d


class FindChecker(FnSpec):
    addr = "_checkers.py::find_checker"
    may_raise = False

    class Loop:
        trace = False

        def __init__(self, spec):
            self.spec = spec

        def inv(self, c):
            if "contract_checker" not in c.st.vars:
                return []  # the source no longer keeps the candidate in this variable: no invariant to offer
            cc = c.st.vars["contract_checker"].t
            ch = CHAIN(self.spec.f)
            return [cc == FC(self.spec.f, c.i),
                    z3.Implies(z3.And(c.i >= 1, cc == NONE), z3.Not(has_lists(c.entry, ch[0]))),
                    z3.Implies(cc != NONE, z3.And(has_lists(c.entry, cc), cc < self.spec.ctr0, cc <= self.spec.f))]

    def __init__(self):
        self.loops = {"_walk_decorator_stack(func)": self.Loop(self)}

    def setup(self, ex, st, a):
        bind_fc(st.copy())
        self.f = a["func"].t
        self.ctr0 = st.ctr

    def ensures_ret(self, c, v):
        f = c.ref("func")
        return [("innermost_object_with_contract_lists", v.t == FC(f, z3.Length(CHAIN(f)))),
                ("none_only_if_func_itself_has_no_lists", z3.Implies(v.t == NONE, z3.Not(has_lists(c.pre, f)))),
                ("a_found_checker_has_the_lists", z3.Implies(v.t != NONE, z3.And(has_lists(c.pre, v.t), v.t < c.pre.ctr, v.t <= f)))]

    def call_events(self, ex, st, c):
        st.assume(*chain_facts(st, c.ref("func")))


FIND_CHECKER = REG.register(FindChecker())


def found(st, f):
    return FC(f, z3.Length(CHAIN(f)))


# ---- add_*_to_checker ------------------------------------------------------------------------------------------------
class AddPrecondition(FnSpec):
    addr = "_checkers.py::add_precondition_to_checker"
    may_raise = False

    def requires(self, c):
        st, k = c.pre, c.ref("checker")
        P = attr(st, k, "__preconditions__")
        return [("checker_has_preconditions", st.get("has:__preconditions__", k)), ("a_list", z3.And(TY(P) == T_LIST, P > 2)),
                ("at_most_one_group_before_the_metaclass_merges", z3.Length(lst(st, P)) <= 1),
                ("group_is_a_list_distinct_from_the_outer_list", z3.Implies(z3.Length(lst(st, P)) == 1, lst(st, P)[0] != P))]

    def modifies(self, c):
        st = c.pre
        P = attr(st, c.ref("checker"), "__preconditions__")
        return [("list", P), ("list", lst(st, P)[0], z3.Length(lst(st, P)) >= 1)]

    def ensures_ret(self, c, v):
        pre, st, k = c.pre, c.post, c.ref("checker")
        P = attr(pre, k, "__preconditions__")
        old, new = lst(pre, P), lst(st, P)
        g = new[0]
        return [("one_group", z3.Length(new) == 1),
                ("first_decorator_creates_the_group", z3.Implies(z3.Length(old) == 0, z3.And(g >= pre.ctr, lst(st, g) == z3.Unit(c.ref("contract"))))),
                ("later_decorators_append_to_it", z3.Implies(z3.Length(old) == 1, z3.And(g == old[0], lst(st, g) == z3.Concat(lst(pre, g), z3.Unit(c.ref("contract"))))))]


class AddPostcondition(FnSpec):
    addr = "_checkers.py::add_postcondition_to_checker"
    may_raise = False

    def requires(self, c):
        st, k = c.pre, c.ref("checker")
        Q = attr(st, k, "__postconditions__")
        return [("checker_has_postconditions", st.get("has:__postconditions__", k)), ("a_list", z3.And(TY(Q) == T_LIST, Q > 2))]

    def modifies(self, c):
        return [("list", attr(c.pre, c.ref("checker"), "__postconditions__"))]

    def ensures_ret(self, c, v):
        Q = attr(c.pre, c.ref("checker"), "__postconditions__")
        return [("appended", lst(c.post, Q) == z3.Concat(lst(c.pre, Q), z3.Unit(c.ref("contract"))))]


class AddSnapshot(FnSpec):
    addr = "_checkers.py::add_snapshot_to_checker"

    class Loop:
        trace = False

        def __init__(self, spec):
            self.spec = spec

        def inv(self, c):
            j = z3.Int("j!as")
            seq = c.seq
            return [z3.ForAll([j], z3.Implies(z3.And(j >= 0, j < c.i), attr(c.entry, seq[j], "name") != attr(c.entry, self.spec.snap, "name")))]

    def __init__(self):
        self.loops = {"snapshots": self.Loop(self)}

    def setup(self, ex, st, a):
        self.snap = a["snapshot"].t

    def requires(self, c):
        st, k = c.pre, c.ref("checker")
        Sn = attr(st, k, "__postcondition_snapshots__")
        j = z3.Int("j!as")
        return [("checker_has_snapshots", st.get("has:__postcondition_snapshots__", k)), ("a_list", z3.And(TY(Sn) == T_LIST, Sn > 2)),
                ("elements_are_snapshots", z3.ForAll([j], z3.Implies(z3.And(j >= 0, j < z3.Length(lst(st, Sn))), ISINST(lst(st, Sn)[j], clsref("Snapshot")))))]

    def clash(self, c):
        st = c.pre
        seq = lst(st, attr(st, c.ref("checker"), "__postcondition_snapshots__"))
        j = z3.Int("j!as")
        return z3.Exists([j], z3.And(j >= 0, j < z3.Length(seq), attr(st, seq[j], "name") == attr(st, c.ref("snapshot"), "name")))

    def modifies(self, c):
        return [("list", attr(c.pre, c.ref("checker"), "__postcondition_snapshots__"))]

    def ensures_ret(self, c, v):
        Sn = attr(c.pre, c.ref("checker"), "__postcondition_snapshots__")
        return [("no_name_clash", z3.Not(self.clash(c))), ("appended", lst(c.post, Sn) == z3.Concat(lst(c.pre, Sn), z3.Unit(c.ref("snapshot"))))]

    def ensures_raise(self, c, e):
        Sn = attr(c.pre, c.ref("checker"), "__postcondition_snapshots__")
        return [("ValueError_iff_duplicate_name", z3.And(self.clash(c), builtin_exc(e.t, "ValueError", c.pre.ctr))),
                ("list_unchanged", lst(c.post, Sn) == lst(c.pre, Sn))]


REG.globals["Snapshot"] = V("ref", clsref("Snapshot"), "class")
ADD_SPECS = [REG.register(AddPrecondition()), REG.register(AddPostcondition()), REG.register(AddSnapshot())]


# ---- decorator constructors ------------------------------------------------------------------------------------------
def bad_error(err):
    """C09/C19: an `error` that is neither None, an exception class, an exception instance nor a function/method."""
    is_type = ISINST(err, clsref("type"))
    return z3.And(err != NONE, z3.If(is_type, z3.Not(SUBCLASS(err, clsref("BaseException"))),
                                     z3.And(z3.Not(ISFUNCTION(err)), z3.Not(ISMETHOD(err)), z3.Not(ISINST(err, clsref("BaseException"))))))


class _ContractDecoratorInit(FnSpec):
    kinds = {"enabled": "bool"}
    field = "_contract"

    def modifies(self, c):
        o = c.ref("self")
        return [(k + f, o) for f in ("enabled", self.field) for k in ("attr:", "has:")]

    def static_checks(self, fnode):
        from pyvc.engine import params_of
        names, defaults, _, _ = params_of(fnode)
        return [("enabled_defaults_to___debug__", "enabled" in defaults and ast.unparse(defaults["enabled"]) == "__debug__")]

    def rejected(self, c):
        return bad_error(c.ref("error"))

    def sig_fail(self, c):
        cond, err = c.ref("condition"), c.ref("error")
        return z3.Or(SIG_RAISES(cond), z3.And(err != NONE, z3.Or(ISFUNCTION(err), ISMETHOD(err)), SIG_RAISES(err)))

    def ensures_ret(self, c, v):
        st, o = c.post, c.ref("self")
        en = c.a["enabled"].t
        k = attr(st, o, self.field)
        return [("stores_enabled", attr(st, o, "enabled") == z3.If(en, TRUE, FALSE)),
                ("disabled_builds_nothing", z3.Implies(z3.Not(en), z3.And(k == NONE, st.ctr == c.pre.ctr, st.time == c.pre.time))),
                ("enabled_rejects_bad_error", z3.Implies(en, z3.Not(self.rejected(c)))),
                ("enabled_builds_the_contract", z3.Implies(en, z3.And(
                    k >= c.pre.ctr, attr(st, k, "condition") == c.ref("condition"), attr(st, k, "error") == c.ref("error"),
                    attr(st, k, "description") == c.ref("description"), attr(st, k, "_a_repr") == c.ref("a_repr"))))]

    def ensures_raise(self, c, e):
        en = c.a["enabled"].t
        return [("only_when_enabled", en),
                ("ValueError_for_bad_error_else_signature_failure", z3.If(self.rejected(c), builtin_exc(e.t, "ValueError", c.pre.ctr), self.sig_fail(c)))]


class RequireInit(_ContractDecoratorInit):
    addr = "_decorators.py::require.__init__"


class EnsureInit(_ContractDecoratorInit):
    addr = "_decorators.py::ensure.__init__"


class InvariantDecoInit(_ContractDecoratorInit):
    addr = "_decorators.py::invariant.__init__"
    field = "_invariant"

    def rejected(self, c):
        cond = c.ref("condition")
        nm = NAMES(SIGOF(cond))
        return z3.Or(bad_error(c.ref("error")), z3.And(z3.Not(bad_error(c.ref("error"))), IS_COROFN(cond)))

    def bad_args(self, c):
        """C19: the condition requires something other than `self` (parameters with defaults are tolerated)."""
        k = attr(c.post, c.ref("self"), "_invariant")
        ma = lst(c.post, attr(c.post, k, "mandatory_args"))
        return z3.And(z3.Length(ma) > 0, ma != z3.Unit(S("self")))

    def ensures_ret(self, c, v):
        en = c.a["enabled"].t
        k = attr(c.post, c.ref("self"), "_invariant")
        return super().ensures_ret(c, v) + [("enabled_rejects_foreign_mandatory_arguments", z3.Implies(en, z3.Not(self.bad_args(c)))),
                                            ("stores_check_on", z3.Implies(en, attr(c.post, k, "check_on") == c.ref("check_on"))),
                                            ("the_contract_is_an_Invariant", z3.Implies(en, ISINST(k, clsref("Invariant"))))]

    def ensures_raise(self, c, e):
        en = c.a["enabled"].t
        return [("only_when_enabled", en),
                ("ValueError_for_documented_misuse_else_signature_failure",
                 z3.Or(z3.And(self.rejected(c), builtin_exc(e.t, "ValueError", c.pre.ctr)),
                       z3.And(z3.Not(self.rejected(c)), self.sig_fail(c)),
                       z3.And(z3.Not(self.rejected(c)), z3.Not(self.sig_fail(c)), self.bad_args(c), builtin_exc(e.t, "ValueError", c.pre.ctr))))]


class SnapshotDecoInit(FnSpec):
    addr = "_decorators.py::snapshot.__init__"
    kinds = {"enabled": "bool"}

    def modifies(self, c):
        o = c.ref("self")
        return [(k + f, o) for f in ("enabled", "_snapshot") for k in ("attr:", "has:")]

    def static_checks(self, fnode):
        from pyvc.engine import params_of
        names, defaults, _, _ = params_of(fnode)
        return [("enabled_defaults_to___debug__", "enabled" in defaults and ast.unparse(defaults["enabled"]) == "__debug__")]

    def ensures_ret(self, c, v):
        st, o = c.post, c.ref("self")
        en = c.a["enabled"].t
        k = attr(st, o, "_snapshot")
        return [("stores_enabled", attr(st, o, "enabled") == z3.If(en, TRUE, FALSE)),
                ("disabled_builds_nothing", z3.Implies(z3.Not(en), z3.And(k == NONE, st.ctr == c.pre.ctr, st.time == c.pre.time))),
                ("enabled_builds_the_snapshot", z3.Implies(en, z3.And(k >= c.pre.ctr, attr(st, k, "capture") == c.ref("capture"), z3.Not(SNAPSHOT_INIT.bad_name(c)))))]

    def ensures_raise(self, c, e):
        en = c.a["enabled"].t
        cap = c.ref("capture")
        return [("only_when_enabled", en),
                ("what_Snapshot_raises", z3.Or(z3.And(SIG_RAISES(cap), e.t == SIG_EXC(cap)),
                                               z3.And(z3.Not(SIG_RAISES(cap)), SNAPSHOT_INIT.bad_name(c), builtin_exc(e.t, "ValueError", c.pre.ctr))))]


INIT_SPECS = [RequireInit(), EnsureInit(), InvariantDecoInit(), SnapshotDecoInit()]


# ---- decorator application -------------------------------------------------------------------------------------------
def lists_come_in_threes(st):
    """Class invariant of checker objects (established by decorate_with_checker, preserved by update_wrapper): the three
    contract-list attributes are present together and are lists."""
    o = z3.Int("o!l3")
    hp, hq, hs = st.get("has:__preconditions__", o), st.get("has:__postconditions__", o), st.get("has:__postcondition_snapshots__", o)
    lists = z3.And([z3.And(TY(attr(st, o, a)) == T_LIST, attr(st, o, a) > 2) for a in TRACKED_DICT[:3]])
    return z3.ForAll([o], z3.And(hp == hq, hq == hs, z3.Implies(hp, lists)))


REG.heap_invariants.append(("checker objects carry the three contract lists together", lists_come_in_threes))


class _FunctionDecoratorCall(FnSpec):
    attr_name = "__preconditions__"
    field = "_contract"

    def setup(self, ex, st, a):
        bind_fc(st.copy())
        st.assume(*chain_facts(st, a["func"].t))

    def en(self, c):
        return attr(c.pre, c.ref("self"), "enabled") == TRUE

    def k(self, c):
        return found(c.pre, c.ref("func"))

    def requires(self, c):
        st = c.pre
        return [("decorator.initialised", z3.Implies(self.en(c), z3.And(attr(st, c.ref("self"), self.field) != NONE, attr(st, c.ref("self"), self.field) < st.ctr))),
                ("enabled_is_a_bool", z3.Or(attr(st, c.ref("self"), "enabled") == TRUE, attr(st, c.ref("self"), "enabled") == FALSE))]

    def fresh_checker(self, c, w):
        st, f = c.post, c.ref("func")
        return z3.And(w >= c.pre.ctr, st.get("has:__wrapped__", w), attr(st, w, "__wrapped__") == f,
                      attr(st, w, "__def__") == z3.If(IS_COROFN(f), S("async"), S("sync")))

    def ensures_raise(self, c, e):
        f = c.ref("func")
        sg = SIGOF(f)
        from .decorate import has_name
        return [("only_when_a_checker_must_be_created", z3.And(self.en(c), self.k(c) == NONE)),
                ("only_documented_rejections", z3.Or(z3.And(SIG_RAISES(f), e.t == SIG_EXC(f)),
                                                     z3.And(z3.Not(SIG_RAISES(f)), z3.Or(has_name(sg, S("_ARGS")), has_name(sg, S("_KWARGS"))), builtin_exc(e.t, "TypeError", c.pre.ctr))))]


class RequireCall(_FunctionDecoratorCall):
    addr = "_decorators.py::require.__call__"

    def requires(self, c):
        st = c.pre
        k = self.k(c)
        P = attr(st, k, "__preconditions__")
        return super().requires(c) + [("usage.decorated_before_the_metaclass_merges_groups", z3.Implies(z3.And(self.en(c), k != NONE), z3.And(
            z3.Length(lst(st, P)) <= 1, z3.Implies(z3.Length(lst(st, P)) == 1, lst(st, P)[0] != P))))]

    def modifies(self, c):
        st = c.pre
        P = attr(st, self.k(c), "__preconditions__")
        return [("list", P, self.k(c) != NONE), ("list", lst(st, P)[0], z3.And(self.k(c) != NONE, z3.Length(lst(st, P)) >= 1))]

    def ensures_ret(self, c, v):
        pre, st = c.pre, c.post
        k, f, ct = self.k(c), c.ref("func"), attr(pre, c.ref("self"), "_contract")
        P = attr(pre, k, "__preconditions__")
        Pn = attr(st, v.t, "__preconditions__")
        g = lst(st, Pn)[0]
        return [("disabled_returns_the_very_object_and_changes_nothing", z3.Implies(z3.Not(self.en(c)), z3.And(v.t == f, st.ctr == pre.ctr, st.time == pre.time))),
                ("stacked_decorator_returns_its_argument", z3.Implies(z3.And(self.en(c), k != NONE), v.t == f)),
                ("stacked_decorator_appends_to_the_single_checker", z3.Implies(z3.And(self.en(c), k != NONE), z3.And(
                    z3.Length(lst(st, P)) == 1,
                    z3.If(z3.Length(lst(pre, P)) == 0, lst(st, lst(st, P)[0]) == z3.Unit(ct),
                          z3.And(lst(st, P)[0] == lst(pre, P)[0], lst(st, lst(pre, P)[0]) == z3.Concat(lst(pre, lst(pre, P)[0]), z3.Unit(ct))))))),
                ("first_decorator_creates_the_checker", z3.Implies(z3.And(self.en(c), k == NONE), z3.And(
                    self.fresh_checker(c, v.t), z3.Length(lst(st, Pn)) == 1, lst(st, g) == z3.Unit(ct),
                    z3.Length(lst(st, attr(st, v.t, "__postconditions__"))) == 0, z3.Length(lst(st, attr(st, v.t, "__postcondition_snapshots__"))) == 0)))]


class EnsureCall(_FunctionDecoratorCall):
    addr = "_decorators.py::ensure.__call__"

    def modifies(self, c):
        return [("list", attr(c.pre, self.k(c), "__postconditions__"), self.k(c) != NONE)]

    def ensures_ret(self, c, v):
        pre, st = c.pre, c.post
        k, f, ct = self.k(c), c.ref("func"), attr(pre, c.ref("self"), "_contract")
        Q = attr(pre, k, "__postconditions__")
        Qn = attr(st, v.t, "__postconditions__")
        return [("disabled_returns_the_very_object_and_changes_nothing", z3.Implies(z3.Not(self.en(c)), z3.And(v.t == f, st.ctr == pre.ctr, st.time == pre.time))),
                ("stacked_decorator_returns_its_argument", z3.Implies(z3.And(self.en(c), k != NONE), v.t == f)),
                ("stacked_decorator_appends_to_the_single_checker", z3.Implies(z3.And(self.en(c), k != NONE), lst(st, Q) == z3.Concat(lst(pre, Q), z3.Unit(ct)))),
                ("first_decorator_creates_the_checker", z3.Implies(z3.And(self.en(c), k == NONE), z3.And(
                    self.fresh_checker(c, v.t), lst(st, Qn) == z3.Unit(ct),
                    z3.Length(lst(st, attr(st, v.t, "__preconditions__"))) == 0, z3.Length(lst(st, attr(st, v.t, "__postcondition_snapshots__"))) == 0)))]


class SnapshotCall(_FunctionDecoratorCall):
    addr = "_decorators.py::snapshot.__call__"
    field = "_snapshot"

    def requires(self, c):
        st = c.pre
        k = self.k(c)
        Sn = attr(st, k, "__postcondition_snapshots__")
        j = z3.Int("j!sc")
        return super().requires(c) + [("snapshots_are_Snapshot_objects", z3.Implies(k != NONE, z3.ForAll([j], z3.Implies(
            z3.And(j >= 0, j < z3.Length(lst(st, Sn))), ISINST(lst(st, Sn)[j], clsref("Snapshot"))))))]

    def modifies(self, c):
        return [("list", attr(c.pre, self.k(c), "__postcondition_snapshots__"), self.k(c) != NONE)]

    def no_postcondition(self, c):
        """C08/C19: a snapshot must be preceded by a postcondition."""
        k = self.k(c)
        return z3.Or(k == NONE, z3.Length(lst(c.pre, attr(c.pre, k, "__postconditions__"))) == 0)

    def clash(self, c):
        st = c.pre
        seq = lst(st, attr(st, self.k(c), "__postcondition_snapshots__"))
        j = z3.Int("j!sc")
        return z3.Exists([j], z3.And(j >= 0, j < z3.Length(seq), attr(st, seq[j], "name") == attr(st, attr(st, c.ref("self"), "_snapshot"), "name")))

    def ensures_ret(self, c, v):
        pre, st = c.pre, c.post
        k, f, sn = self.k(c), c.ref("func"), attr(pre, c.ref("self"), "_snapshot")
        Sn = attr(pre, k, "__postcondition_snapshots__")
        return [("returns_its_argument", v.t == f),
                ("disabled_changes_nothing", z3.Implies(z3.Not(self.en(c)), z3.And(st.ctr == pre.ctr, st.time == pre.time))),
                ("enabled_requires_a_postcondition_and_a_new_name", z3.Implies(self.en(c), z3.And(z3.Not(self.no_postcondition(c)), z3.Not(self.clash(c))))),
                ("enabled_appends_the_snapshot", z3.Implies(self.en(c), lst(st, Sn) == z3.Concat(lst(pre, Sn), z3.Unit(sn))))]

    def ensures_raise(self, c, e):
        return [("only_when_enabled", self.en(c)),
                ("ValueError_iff_no_postcondition_or_duplicate_name", z3.And(z3.Or(self.no_postcondition(c), self.clash(c)), builtin_exc(e.t, "ValueError", c.pre.ctr)))]


CALL_SPECS = [RequireCall(), EnsureCall(), SnapshotCall()]

"""_create_violation_error: what a violation raises (C09), as a decision table over the kind of `contract.error`."""
import z3

from pyvc.base import V, NONE, I, B, T_EXC, ISINST, EXC_CLASS, clsref, fresh
from pyvc.engine import FnSpec
from pyvc.registry import event, EMPTY, RESP_RAISES, RESP_VAL
from .lib import REG, S, builtin_exc, dom, val, lst, attr, cause_of
from . import trace_funs as T
from .trace_funs import Res, OK, FAIL, RAISEU, RAISEL, VI, U, raiseu, raisel
from .checkers_pure import missing_any

ISFUNCTION = z3.Function("inspect_isfunction", I, B)
ISMETHOD = z3.Function("inspect_ismethod", I, B)
SUBCLASS = z3.Function("issubclass", I, I, B)
REG.external("inspect.isfunction/ismethod, isinstance(x, type), issubclass", "pure predicates of the object (language reference 3.3, inspect docs)")


def error_kind(H, c):
    err = attr(H, c, "error")
    is_fn = z3.Or(ISMETHOD(err), ISFUNCTION(err))
    is_type = ISINST(err, clsref("type"))
    is_inst = ISINST(err, clsref("BaseException"))
    return err, is_fn, is_type, is_inst


def _vi_body(H, c, rho, t):
    err, is_fn, is_type, is_inst = error_kind(H, c)
    D = dom(H, rho)
    msg_ev = U(event("Msg", c, rho))
    m = RESP_VAL(t)
    # error=None: ViolationError(generated message); a failing message build is wrapped into RuntimeError (C07)
    rc_ev = z3.Concat(msg_ev, U(event("ReprCond", c)))
    wrapped = Res.ite(RESP_RAISES(t + 1), raiseu(RESP_VAL(t + 1), t + 2, rc_ev), raisel("RuntimeError", m, t + 2, rc_ev))
    none_case = Res.ite(RESP_RAISES(t), Res.ite(ISINST(m, clsref("Exception")), wrapped, raiseu(m, t + 1, msg_ev)),
                        Res(OK, None, NONE, t + 1, msg_ev))
    # function / method: called once with the subset of values it names; the result must be an exception
    f_ev = U(event("ErrF", c, rho))
    miss = missing_any(H, attr(H, c, "error_args"), D)
    fn_case = Res.ite(miss, raisel("TypeError", NONE, t),
                      Res.ite(RESP_RAISES(t), raiseu(m, t + 1, f_ev),
                              Res.ite(ISINST(m, clsref("BaseException")), Res(OK, m, NONE, t + 1, f_ev), raisel("TypeError", NONE, t + 1, f_ev))))
    # exception class: instantiated with the generated message
    c_ev = z3.Concat(msg_ev, U(event("ErrC", c, m)))
    r = RESP_VAL(t + 1)
    type_case = Res.ite(z3.Not(SUBCLASS(err, clsref("BaseException"))), raisel("TypeError", NONE, t),
                        Res.ite(RESP_RAISES(t), raiseu(m, t + 1, msg_ev),
                                Res.ite(RESP_RAISES(t + 1), raiseu(r, t + 2, c_ev), Res(OK, r, NONE, t + 2, c_ev))))
    inst_case = Res(OK, err, NONE, t, EMPTY)
    other = raisel("NotImplementedError", NONE, t)
    return Res.ite(err == NONE, none_case, Res.ite(is_fn, fn_case, Res.ite(is_type, type_case, Res.ite(is_inst, inst_case, other))))


_bind_prev = T.bind_defs


def bind_defs(H):
    _bind_prev(H)
    VI.bind(lambda c, rho, t: _vi_body(H, c, rho, t))


T.bind_defs = bind_defs


def raise_matches(c, e, R):
    from .checkers_trace import raise_matches as rm
    return rm(c, e, R)


def contract_invariant(st):
    """Class invariant of icontract._types.Contract (established by Contract.__init__, the only writer of these
    fields): a callable `error` has its parameter names recorded."""
    c = z3.Int("c!ci")
    err = attr(st, c, "error")
    return z3.ForAll([c], z3.Implies(z3.And(err != NONE, z3.Or(ISMETHOD(err), ISFUNCTION(err))),
                                      z3.And(attr(st, c, "error_args") != NONE, attr(st, c, "error_arg_set") != NONE)))


REG.heap_invariants.append(("Contract: callable error => error_args recorded", contract_invariant))


class CreateViolationError(FnSpec):
    addr = "_checkers.py::_create_violation_error"
    hints = {"resolved_kwargs": "dict"}
    trace = True

    def __init__(self):
        self.calls = {
            "icontract._represent.generate_message": self.msg_oracle,
            "icontract._represent.represent_condition": self.reprcond_oracle,
            "ViolationError": self.new_violation_error,
        }
        self.methods = {"error": self.error_call}

    def R(self, c):
        return VI(c.ref("contract"), c.ref("resolved_kwargs"), c.pre.time)

    def requires(self, c):
        # class invariant of Contract (established by Contract.__init__): a callable error has its argument names recorded
        H, ct = c.pre, c.ref("contract")
        err, is_fn, _, _ = error_kind(H, ct)
        return [("contract.error_args_recorded_for_callable_errors",
                 z3.Implies(z3.And(err != NONE, is_fn), z3.And(attr(H, ct, "error_args") != NONE, attr(H, ct, "error_arg_set") != NONE)))]

    def setup(self, ex, st, a):
        T.bind_defs(st.copy())
        self.c, self.rho, self.t0 = a["contract"].t, a["resolved_kwargs"].t, st.time

    def init_trace(self, c):
        return self.R(c).ev

    # -- user code reached from here ---------------------------------------------------------------------------
    def msg_oracle(self, ex, st, node, args, kwargs):
        return REG.oracle(ex, st, "Msg", kwargs["contract"].t, kwargs["resolved_kwargs"].t, hint="opaque_str")

    def reprcond_oracle(self, ex, st, node, args, kwargs):
        return REG.oracle(ex, st, "ReprCond", self.c, hint="opaque_str")

    def new_violation_error(self, ex, st, node, args, kwargs):
        e = ex.new_exception(st, "ViolationError")
        st.put("attr:args0", e, ex.to_ref(st, args[0]))
        # prophecy: the spec's value for this creation *is* the object allocated here (vi_val is otherwise unconstrained)
        st.assume(e == VI(self.c, self.rho, self.t0).val)
        return [(st, V("ref", e, "opt_truthy"))]

    def error_call(self, ex, st, node, recv, args, kwargs):
        from .checkers_trace import selection_of
        if set(kwargs) == {"**"} and not args:
            n = ex.ordinal("oracle:ErrF")
            selection_of(ex, st, kwargs["**"].t, self.rho, attr(st, recv.t, "error_arg_set"), "oracle.ErrF#%d" % n)
            return REG.oracle(ex, st, "ErrF", recv.t, self.rho)
        if len(args) == 1 and not kwargs:
            out = REG.oracle(ex, st, "ErrC", recv.t, ex.to_ref(st, args[0]))
            for s, r in out:
                if isinstance(r, V):
                    s.assume(r.t != NONE)
            REG.assumptions.add("instantiating an exception class yields an object, not None")
            return out
        return None

    # -- contract -----------------------------------------------------------------------------------------------
    def ensures_ret(self, c, v):
        R = self.R(c)
        t0 = c.pre.time
        fresh_ve = z3.Implies(attr(c.pre, c.ref("contract"), "error") == NONE, z3.And(
            builtin_exc(v.t, "ViolationError", c.pre.ctr), c.post.get("attr:args0", v.t) == RESP_VAL(t0)))
        return [("returns_iff_table_says_so", R.kind == OK), ("the_object_the_table_names", v.t == R.val), ("never_none", v.t != NONE),
                ("default_is_ViolationError_with_the_generated_message", fresh_ve), ("clock", c.post.time == R.end)]

    def ensures_raise(self, c, e):
        R = self.R(c)
        return [("raises_what_the_table_says", raise_matches(c, e.t, R)),
                ("clock", c.post.time == R.end)]

    def call_events(self, ex, st, c):
        REG.emit(ex, st, "Viol", c.ref("contract"), c.ref("resolved_kwargs"))
        st.time = self.R(c).end

"""Specification functions for the evaluation of contract lists (written from the property statements C01/C02/C08/
C13/C16, not from the code).

Outcome of evaluating something at ghost time t: Res(kind, val, cls, end, ev)
  kind  OK | FAIL (val = the violation error) | RAISEU (val = the very exception user code raised)
        | RAISEL (library raises a fresh exception of class cls whose __cause__ is val, or None)
  end   ghost time afterwards;   ev   the events (calls into user code / blocks) in order.
`am` is the mode: False = sync callable, True = async callable (C13: one text, two bodies).
"""
import z3

from pyvc.base import NONE, TRUE, FALSE, I, B, ISINST, clsref, ArrIB
from pyvc.registry import event, EMPTY, SeqEv, RESP_RAISES, RESP_VAL, RESP_BOOL, IS_CORO, IS_COROFN
from .lib import REG, lst, attr, is_userobj
from .checkers_pure import missing_any

OK, FAIL, RAISEU, RAISEL = [z3.IntVal(i) for i in range(4)]


class Res:
    """A leaf outcome (five terms)."""

    def __init__(self, kind, val, cls, end, ev):
        self.kind, self.val, self.cls, self.end, self.ev = kind, val, cls, end, ev

    @staticmethod
    def ite(c, a, b):
        return Tree(c, a, b)

    def after(self, ev_prefix):
        """The same outcome, preceded by the events ev_prefix."""
        return Res(self.kind, self.val, self.cls, self.end, z3.Concat(ev_prefix, self.ev))

    def eqs(self, other):
        return z3.And(self.kind == other.kind, self.val == other.val, self.cls == other.cls, self.end == other.end)

    def leaves(self, guards=()):
        return [(list(guards), self)]


class Tree:
    """Decision tree of outcomes; a definition body. Flattened into one guarded clause per leaf (no nested ite terms
    inside sequence equations: the SAT core picks the leaf, the sequence solver only sees plain concatenations)."""

    def __init__(self, c, a, b):
        self.c, self.a, self.b = c, a, b

    def after(self, ev_prefix):
        return Tree(self.c, self.a.after(ev_prefix), self.b.after(ev_prefix))

    def leaves(self, guards=()):
        return self.a.leaves(tuple(guards) + (self.c,)) + self.b.leaves(tuple(guards) + (z3.Not(self.c),))


def ok(t):
    return Res(OK, NONE, NONE, t, EMPTY)


def raiseu(e, t, ev=EMPTY):
    return Res(RAISEU, e, NONE, t, ev)


def raisel(clsname, cause, t, ev=EMPTY):
    return Res(RAISEL, cause, clsref(clsname), t, ev)


def U(e):
    return z3.Unit(e)


# ---- the violation-error block (contract of _create_violation_error, C09); defined in specs/violation.py ------
class _Lazy:
    def __getattr__(self, name):
        return getattr(VI, name)


def viol(c, rho, t):
    """A falsy condition: the violation error is created (block event); it is returned (FAIL) or creation raises."""
    v = VI(c, rho, t)
    ev = U(event("Viol", c, rho))
    return Res(z3.If(v.kind == OK, FAIL, v.kind), v.val, v.cls, v.end, ev)


def _not_check_res(v, t, on_falsy, on_truthy):
    """`not check`: None/True/False are exact; any other object is asked (Truth event)."""
    asked = U(event("Truth", v))
    exc = RESP_VAL(t)
    raised = Res.ite(ISINST(exc, clsref("Exception")), raisel("ValueError", exc, t + 1, asked), raiseu(exc, t + 1, asked))
    user = Res.ite(RESP_RAISES(t), raised, Res.ite(RESP_BOOL(t), on_truthy(t + 1).after(asked), on_falsy(t + 1).after(asked)))
    return Res.ite(v == TRUE, on_truthy(t), Res.ite(z3.Or(v == NONE, v == FALSE), on_falsy(t), user))


def _step_body(H, am, corofn_first, D, rho, c, t):
    """One condition of a pre/postcondition list, evaluated at time t (heap H for the contract's attributes)."""
    cond = attr(H, c, "condition")
    miss = missing_any(H, attr(H, c, "mandatory_args"), D)
    corofn = IS_COROFN(cond)
    called = U(event("Cond", c, rho))
    v = RESP_VAL(t)

    def judge(check, tt):
        n = NC(check, tt)
        return Res.ite(n.kind == FAIL, viol(c, rho, n.end).after(n.ev), n)

    # sync
    s_after = Res.ite(RESP_RAISES(t), raiseu(v, t + 1), Res.ite(IS_CORO(v), raisel("ValueError", NONE, t + 1), judge(v, t + 1))).after(called)
    s_miss = raisel("TypeError", NONE, t)
    s_coro = raisel("ValueError", NONE, t)
    sync = Res.ite(z3.And(corofn_first, corofn), s_coro, Res.ite(miss, s_miss, Res.ite(corofn, s_coro, s_after)))
    # async: coroutine functions and returned coroutines are awaited before being judged
    awaited = U(event("Await", v))
    w = RESP_VAL(t + 1)
    a_await = Res.ite(RESP_RAISES(t + 1), raiseu(w, t + 2), judge(w, t + 2)).after(awaited)
    a_after = Res.ite(RESP_RAISES(t), raiseu(v, t + 1), Res.ite(z3.Or(corofn, IS_CORO(v)), a_await, judge(v, t + 1))).after(called)
    asyn = Res.ite(miss, s_miss, a_after)
    return Res.ite(am, asyn, sync)


class Walk:
    """A family of recursive spec functions kind/val/cls/end/ev over an index; definitions are bound per heap."""

    def __init__(self, name, sorts):
        self.name = name
        self.sorts = sorts
        self.kind = REG.specfun(name + "_kind", sorts + [I])
        self.val = REG.specfun(name + "_val", sorts + [I])
        self.cls = REG.specfun(name + "_cls", sorts + [I])
        self.end = REG.specfun(name + "_end", sorts + [I])
        self.ev = REG.specfun(name + "_ev", sorts + [SeqEv])

    def __call__(self, *args):
        return Res(self.kind(*args), self.val(*args), self.cls(*args), self.end(*args), self.ev(*args))

    def bind(self, body):
        """body(*args) -> Res; installs the unfolding  f(args) == body(args)  for all five components."""
        memo = {}

        def defn(*args):
            key = tuple(a.get_id() for a in args)
            if key not in memo:
                me = self(*args)
                cl = []
                for guards, leaf in body(*args).leaves():
                    eqs = z3.And([getattr(me, comp) == getattr(leaf, comp) for comp in ("kind", "val", "cls", "end", "ev")
                                  if getattr(leaf, comp) is not None])
                    cl.append(z3.Implies(z3.And(guards), eqs) if guards else eqs)
                memo[key] = z3.And(cl) if len(cl) > 1 else cl[0]
            return memo[key]
        for comp in ("kind", "val", "cls", "end", "ev"):
            getattr(self, comp).defn = defn


# creation of the violation error for a contract: OK (val = the error object) | RAISEU | RAISEL
VI = Walk("vi", [I, I, I])  # contract, rho, t
# truth test of a check value: OK = truthy, FAIL = falsy, or the raise of `not check` (contract of not_check)
NC = Walk("nc", [I, I])  # value, t
# one condition of a list
ST = Walk("st", [B, B, ArrIB, I, I, I])  # am, corofn_first, D, rho, contract, t


def not_check_res(v, t):
    return NC(v, t)


def step(H, am, cf, D, rho, c, t):
    return ST(am, cf, D, rho, c, t)


# conjunctive walk: conditions lst[i:], all must hold; stops at the first that does not (C16)
CW = Walk("cw", [B, B, ArrIB, I, I, I, I])  # am, corofn_first, D, rho, list, i, t
# disjunctive walk over precondition groups (C01/C04/C16)
PW = Walk("pw", [B, ArrIB, I, I, I, I])  # am, D, rho, P, gi, t


def bind_defs(H):
    """Bind the recursive definitions to heap snapshot H (list contents and contract attributes are read from it)."""

    NC.bind(lambda v, t: _not_check_res(v, t, lambda t2: Res(FAIL, NONE, NONE, t2, EMPTY), lambda t2: ok(t2)))
    ST.bind(lambda am, cf, D, rho, c, t: _step_body(H, am, cf, D, rho, c, t))

    def cw_body(am, cf, D, rho, l, i, t):
        seq = lst(H, l)
        r = step(H, am, cf, D, rho, seq[i], t)
        rest = CW(am, cf, D, rho, l, i + 1, r.end)
        return Res.ite(z3.Or(i < 0, i >= z3.Length(seq)), ok(t), Res.ite(r.kind == OK, rest.after(r.ev), r))

    CW.bind(cw_body)

    def pw_body(am, D, rho, P, gi, t):
        groups = lst(H, P)
        r = CW(am, z3.BoolVal(False), D, rho, groups[gi], z3.IntVal(0), t)
        rest = PW(am, D, rho, P, gi + 1, r.end)
        more = gi + 1 < z3.Length(groups)
        return Res.ite(z3.Or(gi < 0, gi >= z3.Length(groups)), ok(t), Res.ite(z3.And(r.kind == FAIL, more), rest.after(r.ev), r))

    PW.bind(pw_body)


# ---- snapshots (C08) ---------------------------------------------------------------------------------------
# one capture, evaluated at time t: kind OK (val = the captured object) | RAISEU | RAISEL
KP = Walk("kp", [B, ArrIB, I, I, I])  # am, D, rho, snapshot, t
# all captures S[i:], in order; kind OK | RAISEU | RAISEL
KW = Walk("kw", [B, ArrIB, I, I, I, I])  # am, D, rho, S, i, t
# ghost: the time at which the j-th capture starts when the walk over S starts at t0
KS = REG.specfun("ks", [B, ArrIB, I, I, I, I, I])  # am, D, rho, S, j, t0


def _capture_body(H, am, D, rho, s, t):
    cap = attr(H, s, "capture")
    miss = missing_any(H, attr(H, s, "args"), D)
    corofn = IS_COROFN(cap)
    called = U(event("Cap", s, rho))
    v = RESP_VAL(t)
    got = lambda x, tt: Res(OK, x, NONE, tt, EMPTY)
    s_after = Res.ite(RESP_RAISES(t), raiseu(v, t + 1), Res.ite(IS_CORO(v), raisel("ValueError", NONE, t + 1), got(v, t + 1))).after(called)
    sync = Res.ite(corofn, raisel("ValueError", NONE, t), Res.ite(miss, raisel("TypeError", NONE, t), s_after))
    awaited = U(event("Await", v))
    w = RESP_VAL(t + 1)
    a_await = Res.ite(RESP_RAISES(t + 1), raiseu(w, t + 2), got(w, t + 2)).after(awaited)
    a_after = Res.ite(RESP_RAISES(t), raiseu(v, t + 1), Res.ite(z3.Or(corofn, IS_CORO(v)), a_await, got(v, t + 1))).after(called)
    asyn = Res.ite(miss, raisel("TypeError", NONE, t), a_after)
    return Res.ite(am, asyn, sync)


_bind_defs_core = bind_defs


def bind_defs(H):
    _bind_defs_core(H)
    KP.bind(lambda am, D, rho, s, t: _capture_body(H, am, D, rho, s, t))

    def kw_body(am, D, rho, S, i, t):
        seq = lst(H, S)
        r = KP(am, D, rho, seq[i], t)
        rest = KW(am, D, rho, S, i + 1, r.end)
        return Res.ite(z3.Or(i < 0, i >= z3.Length(seq)), ok(t), Res.ite(r.kind == OK, rest.after(r.ev), r))

    KW.bind(kw_body)

    def ks_def(am, D, rho, S, j, t0):
        seq = lst(H, S)
        prev = KS(am, D, rho, S, j - 1, t0)
        return KS(am, D, rho, S, j, t0) == z3.If(j <= 0, t0, KP(am, D, rho, seq[j - 1], prev).end)

    KS.defn = ks_def

"""specs.lib -- the icontract registry: Python/stdlib externals (trusted, listed), hints, helpers for contracts."""
import z3

from pyvc.base import (
    V, Unsupported, fresh, vref, vint, vbool, vstr, VNONE, NONE, TRUE, FALSE, I, B, SeqI,
    TY, T_LIST, T_TUPLE, T_DICT, T_SET, T_EXC, T_STR, T_OBJ, T_FUNC, T_CLASS, ISINST, EXC_CLASS, clsref, strref, objref, IDOF,
)
from pyvc.symex import Raise, _EXC_PARENTS, exc_ancestors
from pyvc.registry import Registry, event, seq, cat, EMPTY, RESP_RAISES, RESP_VAL, RESP_BOOL, IS_CORO, IS_COROFN, SeqEv, Ev
from pyvc.engine import FnSpec, Ctx, apply_contract
from pyvc import extract

S = strref


def boolterm(v):
    if v.kind == "bool":
        return v.t
    if v.kind == "int":
        return v.t != 0
    return v.t == TRUE


def builtin_exc(e, clsname, pre_ctr=None):
    """e is an exception object freshly allocated by the library from the built-in class clsname."""
    anc = set(exc_ancestors(clsname))
    fs = [TY(e) == T_EXC, EXC_CLASS(e) == clsref(clsname)]
    fs += [ISINST(e, clsref(k)) == z3.BoolVal(k in anc) for k in _EXC_PARENTS]
    if pre_ctr is not None:
        fs.append(e >= pre_ctr)
    return z3.And(fs)


def cause_of(st, e):
    return st.get("attr:__cause__", e)


def is_userobj(t):
    """Not None/True/False: truthiness is decided by user code."""
    return z3.And(t != NONE, t != TRUE, t != FALSE)


def forall(names, body_fn):
    vs = [z3.Int(n) for n in names]
    return z3.ForAll(vs, body_fn(*vs))


from pyvc.base import qforall  # noqa: E402,F401


def dom(st, d):
    return st.get("ddom", d)


def val(st, d):
    return st.get("dval", d)


def lst(st, r):
    return st.get("list", r)


def attr(st, r, name):
    return st.get("attr:" + name, r)


class IcontractRegistry(Registry):
    """Everything the units of icontract reference that is not itself a unit under contract."""

    def __init__(self):
        super().__init__()
        self.fnspecs = {}
        for k in _EXC_PARENTS:
            self.globals[k] = V("ref", clsref(k), "class")
            self.calls[k] = self._exc_ctor(k)
        self.globals["object"] = V("ref", clsref("object"), "class")
        self.globals["type"] = V("ref", clsref("type"), "class")
        self.globals["list"] = V("ref", clsref("list"), "class")
        self.globals["property"] = V("ref", clsref("property"), "class")
        self.globals["staticmethod"] = V("ref", clsref("staticmethod"), "class")
        self.globals["classmethod"] = V("ref", clsref("classmethod"), "class")
        self.attr_hints.update({
            "mandatory_args": "list", "condition_args": "list", "condition_arg_set": "set", "error_args": "list",
            "error_arg_set": "set", "args": "list", "arg_set": "set", "__preconditions__": "list",
            "__postconditions__": "list", "__postcondition_snapshots__": "list",
        })
        self.elem_hints.update({})
        # inspect predicates: pure functions of the object (trusted externals)
        for nm in ("iscoroutinefunction", "iscoroutine", "isfunction", "ismethod", "isclass", "ismodule", "isbuiltin"):
            self._pure_pred("inspect." + nm, nm)
        self.external("inspect.iscoroutinefunction/iscoroutine/isfunction/ismethod", "pure predicates of the object (inspect docs)")

    def _exc_ctor(self, k):
        def h(ex, st, node, args, kwargs):
            return [(st, V("ref", ex.new_exception(st, k), "opt_truthy"))]
        return h

    def _pure_pred(self, text, nm):
        f = {"iscoroutinefunction": IS_COROFN, "iscoroutine": IS_CORO}.get(nm)
        if f is None:
            f = z3.Function("inspect_" + nm, I, B)

        def h(ex, st, node, args, kwargs):
            return [(st, vbool(f(ex.to_ref(st, args[0]))))]
        self.calls[text] = h
        self.pure_calls[text] = lambda ex, st, args: vbool(f(ex.to_ref(st, args[0])))
        return f

    def emit_if(self, ex, st, cond, kind, a=NONE, b=NONE):
        """Conditional event without forking: obligation under cond, todo/time advance under cond."""
        ev = event(kind, a, b)
        k = ex.ordinal("emit:" + kind)
        ex.oblige(st, "emit.%s#%d.matches_spec" % (kind, k),
                  z3.Implies(cond, z3.And(z3.Length(st.todo) > 0, st.todo[0] == ev)), kind="trace", meta={"event": kind})
        rest = fresh("todo", SeqEv)
        st.assume(z3.If(cond, st.todo == z3.Concat(z3.Unit(ev), rest), st.todo == rest))
        st.todo = rest
        st.time = z3.If(cond, st.time + 1, st.time)

    def register(self, spec):
        """Put a unit under contract: its call sites now see only the contract."""
        unit = extract.get_unit(spec.addr)
        self.fnspecs[spec.addr] = spec
        h = apply_contract(spec, unit.node)
        short = spec.addr.split("::")[1]
        if "/" not in short and "." not in short:
            import ast as _ast
            if isinstance(unit.node, _ast.AsyncFunctionDef):
                self.async_units.add(short)
            self.calls[short] = h
            mod = spec.addr.split("::")[0][:-3]
            self.calls["icontract.%s.%s" % (mod, short)] = h
        return spec


REG = IcontractRegistry()

"""icontract/_types.py: Contract.__init__, Invariant.__init__, Snapshot.__init__ (data structures the checkers read)."""
import ast
import z3

from pyvc.base import V, NONE, I, B, SeqI, T_OBJ, T_LIST, T_SET, ISINST, clsref, fresh, vbool, TY
from pyvc.engine import FnSpec, apply_contract, bind_args
from pyvc.symex import Raise
from pyvc.symex_call import filter_map_axioms, comp_id
from pyvc import extract
from .lib import REG, S, builtin_exc, dom, val, lst, attr, cause_of
from .decorate import SIGOF, PARAMS, NAMES, EMPTY_DEFAULT, signature_facts
from .violation import ISFUNCTION, ISMETHOD, contract_invariant

SIG_RAISES = z3.Function("signature_raises", I, B)
SIG_EXC = z3.Function("signature_exc", I, I)


def _comp_source(ex, st, target, src, j):
    if src.kind == "ref" and src.py == "sig_items":
        ps = lst(st, PARAMS(src.t))
        if not (isinstance(target, ast.Tuple) and len(target.elts) == 2):
            return None
        return {target.elts[0].id: V("ref", NAMES(src.t)[j]), target.elts[1].id: V("ref", ps[j])}, ps
    return None


REG.comp_source_hook = _comp_source


def ctor(spec, fields=()):
    """Calling the class: a fresh instance, then __init__ by contract."""
    unit = extract.get_unit(spec.addr)
    h = apply_contract(spec, unit.node)

    def handler(ex, st, node, args, kwargs):
        o = st.alloc(T_OBJ, "inst")
        st.assume(ISINST(o, clsref(spec.addr.split("::")[1].split(".")[0])))  # an instance of the class that was called
        for f in list(getattr(spec, "FIELDS", [])) + ["check_on"]:
            st.put("has:" + f, o, z3.BoolVal(False))  # a fresh instance has no attributes yet
        out = []
        for s, r in h(ex, st, node, [V("ref", o, None)] + list(args), kwargs):
            out.append((s, r if isinstance(r, Raise) else V("ref", o, spec.instance_hint)))
        return out
    return handler


def _mandatory_comprehension():
    u = extract.get_unit("_types.py::Contract.__init__")
    for n in ast.walk(u.node):
        if isinstance(n, ast.Assign) and ast.unparse(n.targets[0]) == "self.mandatory_args" and isinstance(n.value, ast.ListComp):
            return ast.unparse(n.value)
    return None


class ContractInit(FnSpec):
    addr = "_types.py::Contract.__init__"
    instance_hint = "contract"
    FIELDS = ["condition", "condition_args", "condition_arg_set", "mandatory_args", "description", "_a_repr", "error", "error_args",
              "error_arg_set", "location"]

    def modifies(self, c):
        return [("attr:" + f, c.ref("self")) for f in self.FIELDS] + [("has:" + f, c.ref("self")) for f in self.FIELDS]

    def is_callable_error(self, c):
        e = c.ref("error")
        return z3.And(e != NONE, z3.Or(ISFUNCTION(e), ISMETHOD(e)))

    def ensures_ret(self, c, v):
        st, o = c.post, c.ref("self")
        cond, err = c.ref("condition"), c.ref("error")
        sg = SIGOF(cond)
        ps = lst(c.pre, PARAMS(sg))
        x = z3.Int("x!ci")
        out = [("signature_available", z3.Not(SIG_RAISES(cond))),
               ("error_signature_available", z3.Implies(self.is_callable_error(c), z3.Not(SIG_RAISES(err))))]
        for f, src in (("condition", cond), ("description", c.ref("description")), ("_a_repr", c.ref("a_repr")), ("error", err), ("location", c.ref("location"))):
            out.append(("stores_" + f, attr(st, o, f) == src))
        ca, cs, ma = attr(st, o, "condition_args"), attr(st, o, "condition_arg_set"), attr(st, o, "mandatory_args")
        out += [("condition_args_are_the_parameter_names", z3.And(ca >= c.pre.ctr, lst(st, ca) == NAMES(sg))),
                ("condition_arg_set_is_their_set", z3.And(cs >= c.pre.ctr, z3.ForAll([x], z3.Select(st.get("set", cs), x) == z3.Contains(NAMES(sg), z3.Unit(x)))))]
        text = _mandatory_comprehension()
        if text is not None:
            fm = filter_map_axioms(ps, lst(st, ma), comp_id(text), lambda j: attr(c.pre, ps[j], "default") == EMPTY_DEFAULT, lambda j: NAMES(sg)[j])
            out += [("mandatory_args_are_the_names_without_default_%d" % i, f) for i, f in enumerate(fm)] + [("mandatory_args_fresh", ma >= c.pre.ctr)]
        ea, es = attr(st, o, "error_args"), attr(st, o, "error_arg_set")
        esg = SIGOF(err)
        out += [("error_args_iff_callable_error", z3.If(self.is_callable_error(c),
                                                      z3.And(ea >= c.pre.ctr, lst(st, ea) == NAMES(esg), es >= c.pre.ctr,
                                                             z3.ForAll([x], z3.Select(st.get("set", es), x) == z3.Contains(NAMES(esg), z3.Unit(x)))),
                                                      z3.And(ea == NONE, es == NONE)))]
        return out

    def ensures_raise(self, c, e):
        cond, err = c.ref("condition"), c.ref("error")
        return [("only_if_a_signature_cannot_be_read", z3.Or(z3.And(SIG_RAISES(cond), e.t == SIG_EXC(cond)),
                                                             z3.And(self.is_callable_error(c), SIG_RAISES(err), e.t == SIG_EXC(err))))]


CONTRACT_INIT = ContractInit()
REG.fnspecs[CONTRACT_INIT.addr] = CONTRACT_INIT
REG.calls["Contract"] = ctor(CONTRACT_INIT)
REG.calls["icontract._types.Contract"] = REG.calls["Contract"]


class InvariantInit(FnSpec):
    addr = "_types.py::Invariant.__init__"
    instance_hint = "contract"

    def __init__(self):
        unit = extract.get_unit(CONTRACT_INIT.addr)
        base = apply_contract(CONTRACT_INIT, unit.node)
        self.calls = {"super().__init__": lambda ex, st, node, args, kwargs: base(ex, st, node, [st.vars["self"]] + list(args), kwargs)}

    def requires(self, c):
        return [("fresh_instance_has_no_check_on", z3.Not(c.pre.get("has:check_on", c.ref("self"))))]

    def modifies(self, c):
        return CONTRACT_INIT.modifies(c) + [("attr:check_on", c.ref("self")), ("has:check_on", c.ref("self"))]

    def ensures_ret(self, c, v):
        return [("stores_check_on", attr(c.post, c.ref("self"), "check_on") == c.ref("check_on"))] + CONTRACT_INIT.ensures_ret(c, v)

    def ensures_raise(self, c, e):
        return CONTRACT_INIT.ensures_raise(c, e)


INVARIANT_INIT = InvariantInit()
REG.fnspecs[INVARIANT_INIT.addr] = INVARIANT_INIT
REG.calls["Invariant"] = ctor(INVARIANT_INIT)


class SnapshotInit(FnSpec):
    addr = "_types.py::Snapshot.__init__"
    instance_hint = "snapshot"
    FIELDS = ["capture", "name", "args", "arg_set", "location"]

    def modifies(self, c):
        return [("attr:" + f, c.ref("self")) for f in self.FIELDS] + [("has:" + f, c.ref("self")) for f in self.FIELDS]

    def bad_name(self, c):
        n = z3.Length(NAMES(SIGOF(c.ref("capture"))))
        return z3.And(c.ref("name") == NONE, n != 1)

    def ensures_ret(self, c, v):
        st, o, cap = c.post, c.ref("self"), c.ref("capture")
        sg = SIGOF(cap)
        x = z3.Int("x!si")
        a, aset = attr(st, o, "args"), attr(st, o, "arg_set")
        return [("signature_available", z3.Not(SIG_RAISES(cap))), ("named_or_exactly_one_parameter", z3.Not(self.bad_name(c))),
                ("stores_capture", attr(st, o, "capture") == cap), ("stores_location", attr(st, o, "location") == c.ref("location")),
                ("name_is_given_or_the_single_parameter", attr(st, o, "name") == z3.If(c.ref("name") == NONE, NAMES(sg)[0], c.ref("name"))),
                ("args_are_the_parameter_names", z3.And(a >= c.pre.ctr, lst(st, a) == NAMES(sg))),
                ("arg_set_is_their_set", z3.And(aset >= c.pre.ctr, z3.ForAll([x], z3.Select(st.get("set", aset), x) == z3.Contains(NAMES(sg), z3.Unit(x)))))]

    def ensures_raise(self, c, e):
        cap = c.ref("capture")
        return [("ValueError_iff_unnamed_without_single_parameter",
                 z3.Or(z3.And(SIG_RAISES(cap), e.t == SIG_EXC(cap)), z3.And(z3.Not(SIG_RAISES(cap)), self.bad_name(c), builtin_exc(e.t, "ValueError", c.pre.ctr))))]


SNAPSHOT_INIT = SnapshotInit()
REG.fnspecs[SNAPSHOT_INIT.addr] = SNAPSHOT_INIT
REG.calls["Snapshot"] = ctor(SNAPSHOT_INIT)

TYPE_SPECS = [CONTRACT_INIT, INVARIANT_INIT, SNAPSHOT_INIT]

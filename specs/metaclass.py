"""icontract/_metaclass.py: merging inherited contracts (C04 C16 C17 C18)."""
import z3

from pyvc.base import V, NONE, TRUE, FALSE, I, B, SeqI, ArrIB, T_OBJ, T_LIST, T_DICT, T_FUNC, ISINST, clsref, fresh, vbool, TY
from pyvc.engine import FnSpec
from pyvc.symex import Raise
from .lib import REG, S, builtin_exc, dom, val, lst, attr, cause_of
from .classes import rhas, rget, own_has, own_get, anc_facts, DUNDERS, ANC

REG.elem_hints["classlist"] = "class"

# invariants inherited from the first i bases, in order (a sequence value)
CI = REG.specfun("inherited_invariants", [I, I, I, SeqI])  # (bases list, dunder name, i)


def bind_ci(H):
    def d(bases, name, i):
        bs = lst(H, bases)
        b = bs[i - 1]
        here = z3.If(rhas(H, b, name), lst(H, rget(H, b, name)), z3.Empty(SeqI))
        return CI(bases, name, i) == z3.If(i <= 0, z3.Empty(SeqI), z3.Concat(CI(bases, name, i - 1), here))
    CI.defn = d


class CollapseInvariants(FnSpec):
    addr = "_metaclass.py::_collapse_invariants"
    hints = {"bases": "classlist", "namespace": "dict"}
    may_raise = False

    class Loop:
        trace = False

        def __init__(self, spec):
            self.spec = spec

        def modifies(self, c):
            return [("list", c.st.vars["invariants"].t)]

        def inv(self, c):
            sp = self.spec
            return [lst(c.st, c.st.vars["invariants"].t) == CI(sp.bases, sp.dname, c.i)]

    def __init__(self):
        self.loops = {"bases": self.Loop(self)}

    def requires(self, c):
        d = c.ref("invariants_dunder")
        st = c.pre
        own = z3.Select(val(st, c.ref("namespace")), d)
        return [("one_of_the_three_dunders", z3.Or([d == S(a) for a in DUNDERS])),
                ("datainv.namespace_entry_is_a_list", z3.Implies(z3.Select(dom(st, c.ref("namespace")), d), z3.And(own > 2, own < st.ctr)))]

    def setup(self, ex, st, a):
        bind_ci(st.copy())
        self.bases, self.dname = a["bases"].t, a["invariants_dunder"].t
        j = z3.Int("j!cb")
        bs = lst(st, self.bases)
        # heap well-formedness at entry: bases and what they provide are allocated objects
        st.assume(z3.ForAll([j], z3.Implies(z3.And(j >= 0, j < z3.Length(bs)), z3.And(
            ANC(bs[j], self.dname) != bs[j], ANC(bs[j], self.dname) < st.ctr, bs[j] < st.ctr, bs[j] > 2,
            rget(st, bs[j], self.dname) < st.ctr, rget(st, bs[j], self.dname) > 2))))

    def modifies(self, c):
        ns = c.ref("namespace")
        return [("ddom", ns), ("dval", ns), ("dord", ns)]

    def ensures_ret(self, c, v):
        pre, st = c.pre, c.post
        ns, d, bases = c.ref("namespace"), c.ref("invariants_dunder"), c.ref("bases")
        bs = lst(pre, bases)
        n = z3.Length(bs)
        j, k = z3.Int("j!ci"), z3.Int("k!ci")
        own = z3.If(z3.Select(dom(pre, ns), d), lst(pre, z3.Select(val(pre, ns), d)), z3.Empty(SeqI))
        total = z3.Concat(CI(bases, d, n), own)
        any_base = z3.Exists([j], z3.And(j >= 0, j < n, rhas(pre, bs[j], d)))
        new = z3.Select(val(st, ns), d)
        return [
            # C17: a class that inherits one of the lists gets a list of its own (possibly empty), never a base's object
            ("owns_a_list_whenever_it_has_or_inherits_one", z3.Select(dom(st, ns), d) == z3.Or(z3.Length(total) > 0, any_base, z3.Select(dom(pre, ns), d))),
            ("the_list_is_bases_in_order_then_own", z3.Implies(z3.Or(z3.Length(total) > 0, any_base), z3.And(new >= pre.ctr, lst(st, new) == total))),
            ("other_namespace_entries_untouched", z3.ForAll([k], z3.Implies(k != d, z3.And(
                z3.Select(dom(st, ns), k) == z3.Select(dom(pre, ns), k), z3.Select(val(st, ns), k) == z3.Select(val(pre, ns), k))))),
        ]


COLLAPSE_INV = REG.register(CollapseInvariants())
META_SPECS = [COLLAPSE_INV]


# ---- function contracts along the override chain ------------------------------------------------------------------------
from .decorators import FC, CHAIN, found, bind_fc, chain_facts, has_lists  # noqa: E402
from .decorate import DWC, TRACKED_DICT  # noqa: E402

LISTS = {"pre": "__preconditions__", "snap": "__postcondition_snapshots__", "post": "__postconditions__"}
# contracts of kind `which` contributed by the first i bases for member `key`, in order
BCAT = {w: REG.specfun("inherited_" + w, [I, I, I, SeqI]) for w in LISTS}  # (bases, key, i)
# some base among the first i provides the member / provides it without any precondition ("accepts every call")
BHAVE = REG.specfun("bases_have_member", [I, I, I, B])
BOPEN = REG.specfun("a_base_accepts_every_call", [I, I, I, B])


def base_checker(H, b, key):
    return found(H, rget(H, b, key))


def bind_bases(H):
    bind_fc(H)
    bind_ci(H)

    def mk(w):
        def d(bases, key, i):
            bs = lst(H, bases)
            b = bs[i - 1]
            k = base_checker(H, b, key)
            here = z3.If(z3.And(rhas(H, b, key), k != NONE), lst(H, attr(H, k, LISTS[w])), z3.Empty(SeqI))
            return BCAT[w](bases, key, i) == z3.If(i <= 0, z3.Empty(SeqI), z3.Concat(BCAT[w](bases, key, i - 1), here))
        return d
    for w in LISTS:
        BCAT[w].defn = mk(w)

    def dh(bases, key, i):
        bs = lst(H, bases)
        return BHAVE(bases, key, i) == z3.If(i <= 0, z3.BoolVal(False), z3.Or(BHAVE(bases, key, i - 1), rhas(H, bs[i - 1], key)))
    BHAVE.defn = dh

    def do(bases, key, i):
        bs = lst(H, bases)
        b = bs[i - 1]
        k = base_checker(H, b, key)
        open_ = z3.And(rhas(H, b, key), z3.Or(k == NONE, z3.Length(lst(H, attr(H, k, "__preconditions__"))) == 0))
        return BOPEN(bases, key, i) == z3.If(i <= 0, z3.BoolVal(False), z3.Or(BOPEN(bases, key, i - 1), open_))
    BOPEN.defn = do


class CollapsePreconditions(FnSpec):
    addr = "_metaclass.py::_collapse_preconditions"
    hints = {"base_preconditions": "list", "preconditions": "list"}
    kinds = {"bases_have_func": "bool"}
    ret_fresh = T_LIST
    ret_fields = ("list",)
    ret_hint = "list"

    def reject(self, c):
        return z3.And(z3.Length(lst(c.pre, c.ref("base_preconditions"))) == 0, c.a["bases_have_func"].t, z3.Length(lst(c.pre, c.ref("preconditions"))) > 0)

    def ensures_ret(self, c, v):
        return [("accepted", z3.Not(self.reject(c))), ("fresh", v.t >= c.pre.ctr),
                ("bases_then_own", lst(c.post, v.t) == z3.Concat(lst(c.pre, c.ref("base_preconditions")), lst(c.pre, c.ref("preconditions"))))]

    def ensures_raise(self, c, e):
        return [("TypeError_iff_weakening_nothing", z3.And(self.reject(c), builtin_exc(e.t, "TypeError", c.pre.ctr)))]


class CollapsePostconditions(FnSpec):
    addr = "_metaclass.py::_collapse_postconditions"
    hints = {"base_postconditions": "list", "postconditions": "list"}
    ret_fresh = T_LIST
    ret_fields = ("list",)
    ret_hint = "list"
    may_raise = False

    def ensures_ret(self, c, v):
        return [("fresh", v.t >= c.pre.ctr), ("bases_then_own", lst(c.post, v.t) == z3.Concat(lst(c.pre, c.ref("base_postconditions")), lst(c.pre, c.ref("postconditions"))))]


# the first index < i of a snapshot named x in the list (or -1): witness for "the name was seen"
FIRST_NAMED = REG.specfun("first_snapshot_named", [I, I, I, I])  # (list, name, i)


class CollapseSnapshots(FnSpec):
    addr = "_metaclass.py::_collapse_snapshots"
    hints = {"base_snapshots": "list", "snapshots": "list"}
    ret_fresh = T_LIST
    ret_fields = ("list",)
    ret_hint = "list"

    class Loop:
        trace = False
        var_hints = {"collapsed": "list"}

        def __init__(self, spec):
            self.spec = spec

        def modifies(self, c):
            return [("set", c.st.vars["seen_names"].t)]

        def inv(self, c):
            j, j2, x = z3.Int("j!cs"), z3.Int("j2!cs"), z3.Int("x!cs")
            seq = c.seq
            nm = lambda r: attr(c.entry, r, "name")
            seen = c.st.get("set", c.st.vars["seen_names"].t)
            self.spec.bind_first(c.entry, seq)
            FI = FIRST_NAMED
            col = c.entry.vars["collapsed"].t if "collapsed" in c.entry.vars else c.st.vars["collapsed"].t
            return [z3.ForAll([j, j2], z3.Implies(z3.And(j >= 0, j < j2, j2 < c.i), nm(seq[j]) != nm(seq[j2]))),
                    z3.ForAll([j], z3.Implies(z3.And(j >= 0, j < c.i), z3.Select(seen, nm(seq[j])))),
                    z3.ForAll([x], z3.And(z3.Select(seen, x) == (FI(col, x, c.i) >= 0),
                                          z3.Implies(FI(col, x, c.i) >= 0, z3.And(FI(col, x, c.i) < c.i, nm(seq[FI(col, x, c.i)]) == x))))]

    def __init__(self):
        self.loops = {"collapsed": self.Loop(self)}

    def bind_first(self, H, seq):
        def d(l, x, i):
            prev = FIRST_NAMED(l, x, i - 1)
            return FIRST_NAMED(l, x, i) == z3.If(i <= 0, -1, z3.If(prev >= 0, prev, z3.If(attr(H, seq[i - 1], "name") == x, i - 1, -1)))
        FIRST_NAMED.defn = d

    def total(self, c):
        return z3.Concat(lst(c.pre, c.ref("base_snapshots")), lst(c.pre, c.ref("snapshots")))

    def clash(self, c):
        t = self.total(c)
        j, j2 = z3.Int("j!cs"), z3.Int("j2!cs")
        return z3.Exists([j, j2], z3.And(j >= 0, j < j2, j2 < z3.Length(t), attr(c.pre, t[j], "name") == attr(c.pre, t[j2], "name")))

    def ensures_ret(self, c, v):
        return [("no_duplicate_names", z3.Not(self.clash(c))), ("fresh", v.t >= c.pre.ctr), ("bases_then_own", lst(c.post, v.t) == self.total(c))]

    def ensures_raise(self, c, e):
        dup = self.clash(c)
        if "collapsed" in c.post.vars and "i:collapsed#0" in c.post.ghost:
            # verifying the body: exhibit the witness (first earlier snapshot with the same name, current snapshot);
            # body(w, i) implies the existential clause callers see
            t = self.total(c)
            i = c.post.ghost["i:collapsed#0"]
            name_i = attr(c.pre, t[i], "name")
            w = FIRST_NAMED(c.post.vars["collapsed"].t, name_i, i)
            dup = z3.And(w >= 0, w < i, i < z3.Length(t), attr(c.pre, t[w], "name") == name_i)
        return [("only_if_two_snapshots_share_a_name", dup), ("it_is_a_ValueError", builtin_exc(e.t, "ValueError", c.pre.ctr))]


COLLAPSE = [REG.register(CollapsePreconditions()), REG.register(CollapsePostconditions()), REG.register(CollapseSnapshots())]
META_SPECS += COLLAPSE


# ---- _decorate_namespace_function ----------------------------------------------------------------------------------------
REG.globals["staticmethod"] = V("ref", clsref("staticmethod"), "class")
REG.globals["classmethod"] = V("ref", clsref("classmethod"), "class")
ISFUNCTION = z3.Function("inspect_isfunction", I, B)


def _wrap_kind(kind):
    def h(ex, st, node, args, kwargs):
        o = st.alloc(T_OBJ, kind)
        st.put("attr:__func__", o, ex.to_ref(st, args[0]))
        for k in ("staticmethod", "classmethod"):
            st.assume(ISINST(o, clsref(k)) == z3.BoolVal(k == kind))
        st.assume(z3.Not(ISFUNCTION(o)))
        return [(st, V("ref", o, None))]
    return h


REG.calls["staticmethod"] = _wrap_kind("staticmethod")
REG.calls["classmethod"] = _wrap_kind("classmethod")


class DecorateNamespaceFunction(FnSpec):
    addr = "_metaclass.py::_decorate_namespace_function"
    hints = {"bases": "classlist", "namespace": "dict"}

    class Loop:
        trace = False
        var_hints = {"base_contract_checker": None}
        var_kinds = {"bases_have_func": "bool", "a_base_accepts_all": "bool"}

        def __init__(self, spec):
            self.spec = spec

        def modifies(self, c):
            return [("list", c.st.vars[v].t) for v in ("base_preconditions", "base_snapshots", "base_postconditions")]

        def inv(self, c):
            sp, st = self.spec, c.st
            out = [lst(st, st.vars["base_preconditions"].t) == BCAT["pre"](sp.bases, sp.key, c.i),
                   lst(st, st.vars["base_snapshots"].t) == BCAT["snap"](sp.bases, sp.key, c.i),
                   lst(st, st.vars["base_postconditions"].t) == BCAT["post"](sp.bases, sp.key, c.i),
                   st.vars["bases_have_func"].t == BHAVE(sp.bases, sp.key, c.i)]
            j = z3.Int("j!sh")
            bs = lst(sp.pre, sp.bases)
            # none of the bases seen so far provides the member through the function's own checker (else the loop has returned)
            out.append(z3.ForAll([j], z3.Implies(z3.And(j >= 0, j < c.i, rhas(sp.pre, bs[j], sp.key)), z3.Not(sp.shares(sp.pre, bs[j], sp.key, sp.k0)))))
            if "a_base_accepts_all" in st.vars:
                acc, have = st.vars["a_base_accepts_all"].t, st.vars["bases_have_func"].t
                out += [acc == BOPEN(sp.bases, sp.key, c.i), z3.Implies(acc, have),
                        z3.Implies(z3.And(have, z3.Not(acc)), z3.Length(lst(st, st.vars["base_preconditions"].t)) > 0)]
            return out

    def __init__(self):
        self.loops = {"bases": self.Loop(self)}

    def value(self, st, a):
        return z3.Select(val(st, a["namespace"].t), a["key"].t)

    def func_of(self, st, a):
        v = self.value(st, a)
        return z3.If(ISFUNCTION(v), v, attr(st, v, "__func__"))

    def requires(self, c):
        st, a = c.pre, c.a
        v = self.value(st, a)
        return [("key_in_namespace", z3.Select(dom(st, a["namespace"].t), a["key"].t)),
                ("value_is_function_or_static_or_class_method", z3.Or(ISFUNCTION(v), ISINST(v, clsref("staticmethod")), ISINST(v, clsref("classmethod")))),
                ("python.exclusive_kinds", z3.And(z3.Implies(ISFUNCTION(v), z3.Not(z3.Or(ISINST(v, clsref("staticmethod")), ISINST(v, clsref("classmethod"))))),
                                           z3.Not(z3.And(ISINST(v, clsref("staticmethod")), ISINST(v, clsref("classmethod")))))),
                ("python.value_allocated", z3.And(v > 2, v < st.ctr, self.func_of(st, a) > 2, self.func_of(st, a) < st.ctr)),
                ("datainv.checker_snapshot_names_distinct", z3.Not(self.dup_in(st, z3.If(found(st, self.func_of(st, a)) != NONE,
                                                                                  lst(st, attr(st, found(st, self.func_of(st, a)), LISTS["snap"])), z3.Empty(SeqI)))))]

    def setup(self, ex, st, a):
        bind_bases(st.copy())
        self.bases, self.key = a["bases"].t, a["key"].t
        self.pre = st.copy()
        self.k0 = found(st, self.func_of(st, a))
        j = z3.Int("j!nf")
        bs = lst(st, self.bases)
        f = self.func_of(st, a)
        st.assume(*chain_facts(st, f))
        bf = lambda x: rget(st, bs[x], self.key)
        o = z3.Int("o!nf")
        # heap closed at entry: what an existing object refers to exists already (its lists are older than anything allocated here)
        st.assume(z3.ForAll([o], z3.Implies(o < st.ctr, z3.And([attr(st, o, LISTS[w]) < st.ctr for w in LISTS]))))
        st.assume(z3.ForAll([j], z3.Implies(z3.And(j >= 0, j < z3.Length(bs)), z3.And(
            ANC(bs[j], self.key) != bs[j], ANC(bs[j], self.key) < st.ctr, bs[j] < st.ctr, bs[j] > 2, bf(j) < st.ctr))))

    @staticmethod
    def shares(H, b, key, k0):
        """The checker of the member is the very checker through which base b provides it (the member is b's, bound again)."""
        kb = base_checker(H, b, key)
        return z3.And(kb != NONE, kb == k0)

    def shared(self, c):
        j = z3.Int("j!sx")
        bs = lst(c.pre, c.a["bases"].t)
        key, k0 = c.a["key"].t, found(c.pre, self.func_of(c.pre, c.a))
        return z3.Exists([j], z3.And(j >= 0, j < z3.Length(bs), rhas(c.pre, bs[j], key), self.shares(c.pre, bs[j], key, k0)))

    def own(self, c):
        f = self.func_of(c.pre, c.a)
        k0 = found(c.pre, f)
        L = lambda w: z3.If(k0 != NONE, lst(c.pre, attr(c.pre, k0, LISTS[w])), z3.Empty(SeqI))
        return f, k0, L

    def effective(self, c):
        st, a = c.pre, c.a
        key, bases = a["key"].t, a["bases"].t
        n = z3.Length(lst(st, bases))
        f, k0, L = self.own(c)
        ctor = z3.Or(key == S("__init__"), key == S("__new__"))
        open_ = BOPEN(bases, key, n)
        e = z3.Empty(SeqI)
        pre = z3.If(ctor, L("pre"), z3.Concat(z3.If(open_, e, BCAT["pre"](bases, key, n)), L("pre")))
        post = z3.If(ctor, L("post"), z3.Concat(BCAT["post"](bases, key, n), L("post")))
        snap = z3.If(ctor, L("snap"), z3.Concat(BCAT["snap"](bases, key, n), L("snap")))
        weaken_nothing = z3.And(z3.Not(ctor), open_, z3.Length(L("pre")) > 0)
        return dict(f=f, k0=k0, ctor=ctor, pre=pre, post=post, snap=snap, reject=weaken_nothing)

    @staticmethod
    def dup_in(st, t):
        j, j2 = z3.Int("j!cs"), z3.Int("j2!cs")
        return z3.Exists([j, j2], z3.And(j >= 0, j < j2, j2 < z3.Length(t), attr(st, t[j], "name") == attr(st, t[j2], "name")))

    def dup(self, c, e):
        return self.dup_in(c.pre, e["snap"])

    def modifies(self, c):
        ns = c.ref("namespace")
        f, k0, _ = self.own(c)
        m = [("ddom", ns), ("dval", ns), ("dord", ns)]
        for a in LISTS.values():
            m.append(("attr:" + a, k0, k0 != NONE))
        return m

    def ensures_ret(self, c, v):
        pre_st, st, a = c.pre, c.post, c.a
        ns, key = a["namespace"].t, a["key"].t
        e = self.effective(c)
        val0 = self.value(pre_st, a)
        val1 = z3.Select(val(st, ns), key)
        active = z3.Or(z3.Length(e["pre"]) > 0, z3.Length(e["post"]) > 0)
        K = z3.If(e["k0"] != NONE, e["k0"], z3.If(ISFUNCTION(val0), val1, attr(st, val1, "__func__")))
        k = z3.Int("k!nf")
        # merged lists are fresh objects (never a base's list: C17); constructors keep their own lists (nothing is merged)
        lists_ok = z3.And([z3.And(z3.Or(e["ctor"], attr(st, K, LISTS[w]) >= pre_st.ctr), lst(st, attr(st, K, LISTS[w])) == e[w],
                                  z3.Implies(z3.And(e["ctor"], e["k0"] != NONE), attr(st, K, LISTS[w]) == attr(pre_st, K, LISTS[w]))) for w in ("pre", "snap", "post")])
        ctor = e["ctor"]
        sh = z3.And(z3.Not(ctor), self.shared(c))  # (constructors are not merged with the bases at all)
        merged = lambda f_: z3.Implies(z3.Not(sh), f_)
        out = self._merged_clauses(c, e, ns, key, val0, val1, active, K, lists_ok, k)
        always = ("key_set_and_order_unchanged", "other_namespace_entries_untouched")  # (hold whether or not anything is merged)
        return [(n_, f_ if n_ in always else merged(f_)) for n_, f_ in out] + [
            ("a_member_shared_with_a_base_is_left_alone", z3.Implies(sh, val1 == val0)),
            ("contracts_of_every_base_are_left_as_they_were", self.bases_untouched(c))]

    def _merged_clauses(self, c, e, ns, key, val0, val1, active, K, lists_ok, k):
        pre_st, st = c.pre, c.post
        return [("accepted", z3.And(z3.Not(e["reject"]), z3.Not(self.dup(c, e)))),
                ("key_set_and_order_unchanged", z3.And(z3.Select(dom(st, ns), key), st.get("dord", ns) == pre_st.get("dord", ns))),
                ("other_namespace_entries_untouched", z3.ForAll([k], z3.Implies(k != key, z3.And(
                    z3.Select(dom(st, ns), k) == z3.Select(dom(pre_st, ns), k), z3.Select(val(st, ns), k) == z3.Select(val(pre_st, ns), k))))),
                ("no_contracts_no_change", z3.Implies(z3.Not(active), val1 == val0)),
                ("existing_checker_is_kept", z3.Implies(z3.And(active, e["k0"] != NONE), val1 == val0)),
                ("new_checker_wraps_the_function_in_the_same_kind", z3.Implies(z3.And(active, e["k0"] == NONE), z3.And(
                    K >= pre_st.ctr, attr(st, K, "__wrapped__") == e["f"],
                    ISFUNCTION(val0) == (val1 == K), ISINST(val1, clsref("staticmethod")) == ISINST(val0, clsref("staticmethod")),
                    ISINST(val1, clsref("classmethod")) == ISINST(val0, clsref("classmethod"))))),
                ("effective_contracts_are_bases_then_own", z3.Implies(active, lists_ok))]

    def bases_untouched(self, c):
        """C17: whatever the new class does with a member, the checker through which a base class provides it keeps its three
        lists.  By the frame of this function (proved: besides the namespace entry and fresh objects only the three list
        attributes of the member's own checker k0 are written, and no pre-existing list object is changed) this is: k0 is not
        the checker of any base -- unless the member is left alone altogether."""
        pre_st, a = c.pre, c.a
        j = z3.Int("j!bu")
        bs = lst(pre_st, a["bases"].t)
        sh = z3.And(z3.Not(self.effective(c)["ctor"]), self.shared(c))
        # (a constructor is never merged with the bases: its checker's three attributes are re-assigned the very list objects
        # they held -- clause effective_contracts_are_bases_then_own -- so nothing changes even if the constructor is a base's)
        return z3.Or(self.effective(c)["ctor"], sh, z3.ForAll([j], z3.Implies(z3.And(j >= 0, j < z3.Length(bs), rhas(pre_st, bs[j], a["key"].t)), z3.Not(self.shares(pre_st, bs[j], a["key"].t, found(pre_st, self.func_of(pre_st, a)))))))

    def ensures_raise(self, c, e_):
        e = self.effective(c)
        f = e["f"]
        from .types import SIG_RAISES
        sh = z3.And(z3.Not(e["ctor"]), self.shared(c))
        return [("never_for_a_member_shared_with_a_base", z3.Not(sh)), ("only_documented_rejections", z3.Or(
            z3.And(e["reject"], builtin_exc(e_.t, "TypeError", c.pre.ctr)),
            z3.And(z3.Not(e["reject"]), self.dup(c, e), builtin_exc(e_.t, "ValueError", c.pre.ctr)),
            z3.And(z3.Not(e["reject"]), e["k0"] == NONE, z3.Or(SIG_RAISES(f), DWC.reserved(type("C", (), {"ref": lambda s, n: f, "pre": c.pre})())))))]


DNF = REG.register(DecorateNamespaceFunction())
META_SPECS.append(DNF)


# ---- _dbc_decorate_namespace, DBCMeta.__new__, invariant.__call__ ----------------------------------------------------------
from pyvc.registry import event, EMPTY, SeqEv  # noqa: E402
from .classes import ISDBC, owns_what_it_resolves, FLAGIN, CALL_FLAG, SETATTR_FLAG  # noqa: E402
ISPROPERTY = lambda v: ISINST(v, clsref("property"))
LIST_ATTR_FIELDS = [k + a for a in LISTS.values() for k in ("attr:", "has:")]
REG.external("_checkers.add_invariant_checks", "assumed contract at call sites; its body is checked separately (see C03)")

# members of the namespace from position i on, each dispatched once to the function that merges its contracts
NSW = REG.specfun("namespace_walk", [I, I, SeqEv])  # (namespace, i)


def member_kind(H, v):
    fn = z3.Or(ISFUNCTION(v), ISINST(v, clsref("staticmethod")), ISINST(v, clsref("classmethod")))
    return fn, z3.And(z3.Not(fn), ISPROPERTY(v))


def bind_nsw(H):
    def d(ns, i):
        order = H.get("dord", ns)
        k = order[i]
        v = z3.Select(val(H, ns), k)
        fn, prop = member_kind(H, v)
        here = z3.If(fn, z3.Unit(event("MemberFn", ns, k)), z3.If(prop, z3.Unit(event("MemberProp", ns, k)), EMPTY))
        return NSW(ns, i) == z3.If(z3.Or(i < 0, i >= z3.Length(order)), EMPTY, z3.Concat(here, NSW(ns, i + 1)))
    NSW.defn = d


class DbcDecorateNamespace(FnSpec):
    addr = "_metaclass.py::_dbc_decorate_namespace"
    hints = {"bases": "classlist", "namespace": "dict"}
    trace = True
    trace_prefix_on_raise = True  # a rejected class creation stops the walk

    class Loop:
        def __init__(self, spec):
            self.spec = spec

        def modifies(self, c):
            ns = self.spec.ns
            return [("ddom", ns), ("dval", ns), ("dord", ns)] + [(f, (lambda r: z3.BoolVal(True))) for f in LIST_ATTR_FIELDS]

        def inv(self, c):
            sp, st = self.spec, c.st
            k = z3.Int("k!dn")
            order0 = c.entry.get("dord", sp.ns)
            # members not yet visited are as they were; the key set and its order do not change
            return [st.todo == NSW(sp.ns, c.i), st.get("dord", sp.ns) == order0,
                    z3.ForAll([k], z3.Select(dom(st, sp.ns), k) == z3.Select(dom(c.entry, sp.ns), k)),
                    z3.ForAll([k], z3.Implies(z3.And(z3.Select(dom(c.entry, sp.ns), k), sp.pos(c.entry, k) >= c.i),
                                              z3.Select(val(st, sp.ns), k) == z3.Select(val(c.entry, sp.ns), k)))]

    def __init__(self):
        self.loops = {"namespace.items()": self.Loop(self)}
        self.calls = {"_collapse_invariants": self.collapse, "_decorate_namespace_function": self.member("MemberFn"),
                      "_decorate_namespace_property": self.member("MemberProp")}

    def pos(self, st, k):
        from .binding import DPOS
        return DPOS(self.ns, k)

    def requires(self, c):
        from .binding import wf_dict
        return [("python.namespace_is_a_dict", wf_dict(c.pre, c.ref("namespace")))]

    def setup(self, ex, st, a):
        bind_bases(st.copy())
        self.ns, self.bases = a["namespace"].t, a["bases"].t
        self.H0 = st.copy()
        bind_nsw_later = None

    def init_trace(self, c):
        ns, bases = c.ref("namespace"), c.ref("bases")
        pre = z3.Concat(*[z3.Unit(event("CollapseInv", ns, S(d))) for d in DUNDERS])
        # the walk is over the namespace as it is *after* the three invariant lists were merged (they may add keys)
        self.walk_marker = fresh("ghost_walk", SeqEv)
        return z3.Concat(pre, self.walk_marker)

    def collapse(self, ex, st, node, args, kwargs):
        REG.emit(ex, st, "CollapseInv", kwargs["namespace"].t, ex.to_ref(st, kwargs["invariants_dunder"]))
        k = ex.ordinal("ci")
        ex.oblige(st, "call[_collapse_invariants]#%d.same_bases_and_namespace" % k, z3.And(kwargs["bases"].t == self.bases, kwargs["namespace"].t == self.ns), kind="callsite")
        out = REG.calls["icontract._metaclass._collapse_invariants"](ex, st, node, args, kwargs)
        if k == 2:
            for s, r in out:
                # prophecy resolved: from here on the expected trace is the walk over the namespace as it is now
                bind_nsw(s.copy())
                s.assume(self.walk_marker == NSW(self.ns, z3.IntVal(0)))
                from .binding import wf_dict
                s.assume(wf_dict(s, self.ns))
                REG.assumptions.add("type invariant python.dict (namespace after the merges)")
        return out

    def member(self, kind):
        def h(ex, st, node, args, kwargs):
            key = ex.to_ref(st, kwargs["key"])
            REG.emit(ex, st, kind, kwargs["namespace"].t, key)
            k = ex.ordinal("member")
            ex.oblige(st, "call[%s]#%d.same_bases_and_namespace" % (kind, k), z3.And(kwargs["bases"].t == self.bases, kwargs["namespace"].t == self.ns), kind="callsite")
            if kind == "MemberFn":
                return REG.calls["icontract._metaclass._decorate_namespace_function"](ex, st, node, args, kwargs)
            h2 = REG.calls.get("icontract._metaclass._decorate_namespace_property")
            if h2 is not None:  # under contract (specs/propmerge.py): the caller sees its contract like any other callee's
                return h2(ex, st, node, args, kwargs)
            return assumed_member_effect(ex, st, self.ns, key)
        return h

    def modifies(self, c):
        ns = c.ref("namespace")
        return [("ddom", ns), ("dval", ns), ("dord", ns)] + [(f, (lambda r: z3.BoolVal(True))) for f in LIST_ATTR_FIELDS]

    def ensures_ret(self, c, v):
        return []

    def ensures_raise(self, c, e):
        return []  # class creation may be rejected by any of the merges (their own contracts say when)


def assumed_member_effect(ex, st, ns, key):
    """Call-site effect of the assumed contract of _decorate_namespace_property."""
    out = []
    for raises in (False, True):
        s = st.copy()
        s.put("dval", ns, z3.Store(s.get("dval", ns), key, fresh("prop_entry")))
        for f in LIST_ATTR_FIELDS:
            from pyvc.base import field_sort
            s.heap[f] = fresh("assumed_" + f.replace(":", "_"), field_sort(f))
        nc = fresh("ctr")
        s.assume(nc >= s.ctr)
        s.ctr = nc
        if raises:
            e = fresh("exc_prop")
            s.assume(e > 2)
            ex.user_exception_facts(s, e)
            out.append((s, Raise(e)))
        else:
            out.append((s, V("ref", NONE)))
    return out


DDN = DbcDecorateNamespace()
META_SPECS.append(DDN)


REG.external("type.__new__ (abc.ABCMeta.__new__)", "returns a fresh class whose own namespace is a copy of the namespace dict and whose attribute "
             "lookup falls back to its bases (language reference 3.3.3)")


def add_invariant_checks_call(ex, st, node, args, kwargs):
    """Call-site view of add_invariant_checks(cls): block event; it rewrites entries of cls's own namespace only."""
    cls = (kwargs.get("cls") or args[0]).t
    REG.emit(ex, st, "AddInvChecks", cls)
    from pyvc.base import field_sort
    out = []
    for raises in (False, True):
        s = st.copy()
        s.put("dval", cls, fresh("aic_dval", field_sort("dval").range()))
        s.put("ddom", cls, fresh("aic_ddom", field_sort("ddom").range()))
        s.put("dord", cls, fresh("aic_dord", field_sort("dord").range()))
        nc = fresh("ctr")
        s.assume(nc >= s.ctr)
        s.ctr = nc
        if raises:
            e = fresh("exc_aic")
            s.assume(e > 2)
            ex.user_exception_facts(s, e)
            out.append((s, Raise(e)))
        else:
            # the invariant lists themselves are kept (it only wraps members)
            for d in DUNDERS:
                s.assume(own_has(s, cls, d) == own_has(st, cls, d), own_get(s, cls, d) == own_get(st, cls, d))
            out.append((s, V("ref", NONE)))
    return out


REG.calls["icontract._checkers.add_invariant_checks"] = add_invariant_checks_call


class DBCMetaNew(FnSpec):
    addr = "_metaclass.py::DBCMeta.__new__"
    hints = {"bases": "classlist", "namespace": "dict", "kwargs": "dict"}
    trace = True
    trace_prefix_on_raise = True

    def __init__(self):
        self.calls = {"_dbc_decorate_namespace": self.decorate, "super().__new__": self.type_new, "_register_for_hypothesis": self.register}

    def setup(self, ex, st, a):
        from pyvc.base import vstr
        st.vars["__name__"] = vstr("icontract._metaclass")
        self.a = a
        self.cls = fresh("ghost_new_class")  # prophecy: the class object type.__new__ will allocate
        self.has_inv = fresh("ghost_has_invariants", B)
        self.outside = fresh("ghost_defined_outside_icontract", B)

    def init_trace(self, c):
        a = c.a
        return z3.Concat(z3.Unit(event("DbcNamespace", a["bases"].t, a["namespace"].t)), z3.Unit(event("TypeNew", a["namespace"].t)),
                         z3.If(self.has_inv, z3.Unit(event("AddInvChecks", self.cls)), EMPTY),
                         z3.If(self.outside, z3.Unit(event("Reg", self.cls)), EMPTY))

    def decorate(self, ex, st, node, args, kwargs):
        REG.emit(ex, st, "DbcNamespace", args[0].t, args[1].t)
        ns = args[1].t
        from pyvc.base import field_sort
        out = []
        for raises in (False, True):
            s = st.copy()
            for f in ("ddom", "dval", "dord"):
                s.put(f, ns, fresh("ns_" + f, field_sort(f).range()))
            for f in LIST_ATTR_FIELDS:
                s.heap[f] = fresh("merged_" + f.replace(":", "_"), field_sort(f))
            nc = fresh("ctr")
            s.assume(nc >= s.ctr)
            s.ctr = nc
            if raises:
                e = fresh("exc_ns")
                s.assume(e > 2)
                ex.user_exception_facts(s, e)
                out.append((s, Raise(e)))
            else:
                out.append((s, V("ref", NONE)))
        return out

    def type_new(self, ex, st, node, args, kwargs):
        mlcs, name, bases, ns = args[0], args[1], args[2], args[3]
        REG.emit(ex, st, "TypeNew", ns.t)
        k = st.alloc(10, "class")
        st.put("ddom", k, dom(st, ns.t))
        st.put("dval", k, val(st, ns.t))
        st.put("dord", k, st.get("dord", ns.t))
        st.assume(k == self.cls, ISDBC(k))
        # lookup on the new class falls back to the bases (only what the body needs: the invariant list and the module)
        j = z3.Int("j!tn")
        bs = lst(st, bases.t)
        inh = z3.Exists([j], z3.And(j >= 0, j < z3.Length(bs), rhas(st, bs[j], "__invariants__")))
        st.assume(own_has(st, ANC(k, S("__invariants__")), "__invariants__") == inh)
        st.assume(self.has_inv == z3.Or(own_has(st, k, "__invariants__"), inh))
        st.assume(self.outside == (attr(st, k, "__module__") != S("icontract._metaclass")))
        return [(st, V("ref", k, "class"))]

    def register(self, ex, st, node, args, kwargs):
        REG.emit(ex, st, "Reg", args[0].t)
        return [(st, V("ref", NONE))]

    def modifies(self, c):
        ns = c.ref("namespace")
        return [("ddom", ns), ("dval", ns), ("dord", ns)] + [(f, (lambda r: z3.BoolVal(True))) for f in LIST_ATTR_FIELDS]

    def ensures_ret(self, c, v):
        st = c.post
        return [("returns_the_class_type_new_created", v.t == self.cls), ("fresh", v.t >= c.pre.ctr), ("created_by_DBCMeta", ISDBC(v.t))]

    def ensures_raise(self, c, e):
        return []


DMN = DBCMetaNew()
META_SPECS.append(DMN)


class InvariantCall(FnSpec):
    addr = "_decorators.py::invariant.__call__"
    hints = {"cls": "class"}
    trace = True
    trace_prefix_on_raise = True

    def en(self, c):
        return attr(c.pre, c.ref("self"), "enabled") == TRUE

    def requires(self, c):
        st, k = c.pre, c.ref("cls")
        inv = attr(st, c.ref("self"), "_invariant")
        lists = z3.And([z3.Implies(rhas(st, k, d), z3.And(TY(rget(st, k, d)) == T_LIST, rget(st, k, d) > 2, rget(st, k, d) < st.ctr)) for d in DUNDERS])
        return [("decorator.initialised", z3.Implies(self.en(c), z3.And(inv != NONE, inv < st.ctr, ISINST(inv, clsref("Invariant"))))),
                ("enabled_is_a_bool", z3.Or(attr(st, c.ref("self"), "enabled") == TRUE, attr(st, c.ref("self"), "enabled") == FALSE)),
                # C17's scope: a class created by DBCMeta owns every invariant list it can look up (established by the
                # metaclass); a plain class shares the lists of a plain base by documented design and is outside the claim
                ("scope.class_owns_the_lists_it_resolves", owns_what_it_resolves(st, k)),
                ("datainv.three_lists_together", z3.And(rhas(st, k, DUNDERS[0]) == rhas(st, k, DUNDERS[1]), rhas(st, k, DUNDERS[0]) == rhas(st, k, DUNDERS[2]))),
                ("datainv.invariant_lists_are_lists", lists),
                ("datainv.three_distinct_lists", z3.Implies(rhas(st, k, DUNDERS[0]), z3.Distinct(*[rget(st, k, d) for d in DUNDERS]))),
                ("python.class_allocated", z3.And(k > 2, k < st.ctr))]

    def setup(self, ex, st, a):
        for d in DUNDERS:
            st.assume(*anc_facts(st, a["cls"].t, d))

    def init_trace(self, c):
        return z3.If(self.en(c), z3.Unit(event("AddInvChecks", c.ref("cls"))), EMPTY)

    def modifies(self, c):
        st, k = c.pre, c.ref("cls")
        m = [("ddom", k), ("dval", k), ("dord", k)]
        for d in DUNDERS:
            m.append(("list", own_get(st, k, d), own_has(st, k, d)))
        return m

    def ensures_ret(self, c, v):
        pre, st, k = c.pre, c.post, c.ref("cls")
        inv = attr(pre, c.ref("self"), "_invariant")
        on = attr(pre, inv, "check_on")
        out = [("returns_the_very_class", v.t == k),
               ("disabled_changes_nothing", z3.Implies(z3.Not(self.en(c)), z3.And(st.ctr == pre.ctr, st.time == pre.time)))]
        for d, cond in ((DUNDERS[0], z3.BoolVal(True)), (DUNDERS[1], FLAGIN(on, CALL_FLAG)), (DUNDERS[2], FLAGIN(on, SETATTR_FLAG))):
            old = z3.If(rhas(pre, k, d), lst(pre, rget(pre, k, d)), z3.Empty(SeqI))
            new = lst(st, own_get(st, k, d))
            out.append(("owns_%s_afterwards" % d, z3.Implies(self.en(c), own_has(st, k, d))))
            out.append(("%s_is_previous_then_this_invariant_if_selected" % d, z3.Implies(self.en(c), new == z3.If(cond, z3.Concat(old, z3.Unit(inv)), old))))
        return out

    def ensures_raise(self, c, e):
        return [("only_when_enabled", self.en(c))]


INVCALL = InvariantCall()
META_SPECS.append(INVCALL)

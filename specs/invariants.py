"""Invariant checks: _assert_invariant, _find_self and the invariant wrappers (C03 C10 C11 C12 C13 C14 C16)."""
import z3

from pyvc.base import V, NONE, TRUE, FALSE, I, B, ArrIB, T_DICT, ISINST, clsref, strref, objref, fresh, vbool, vint, IDOF
from pyvc.engine import FnSpec
from pyvc.registry import event, EMPTY, RESP_RAISES, RESP_VAL, IS_CORO
from pyvc.symex import Raise
from .lib import REG, S, builtin_exc, dom, val, lst, attr, cause_of
from . import trace_funs as T
from .trace_funs import Res, OK, FAIL, RAISEU, RAISEL, Walk, U, ok, raiseu, raisel, NC, viol
from .checkers_trace import raise_matches, F_, T_
from .binding import distinct_names, PIDX, wf_dict

# the keyword map {"self": instance} that _assert_invariant allocates for a violation at time t (Skolem function)
RHOF = z3.Function("ghost_inv_rho", I, I, I)
# one invariant on one instance: OK | FAIL (val = the error to raise) | RAISEU | RAISEL
IV = Walk("iv", [I, I, I])  # contract, instance, t
# all invariants L[i:] in order, stopping at the first that does not hold
IW = Walk("iw", [I, I, I, I])  # list, instance, i, t


def _iv_body(H, c, inst, t):
    called = U(event("Cond", c, inst))
    v = RESP_VAL(t)
    n = NC(v, t + 1)
    judged = Res.ite(n.kind == FAIL, viol(c, RHOF(c, t), n.end).after(n.ev), n)
    # C13: a sync evaluation never takes an un-awaited coroutine for a truthy value
    return Res.ite(RESP_RAISES(t), raiseu(v, t + 1, called),
                   Res.ite(IS_CORO(v), raisel("ValueError", NONE, t + 1, called), judged.after(called)))


_prev_bind = T.bind_defs


def bind_defs(H):
    _prev_bind(H)
    IV.bind(lambda c, inst, t: _iv_body(H, c, inst, t))

    def iw_body(L, inst, i, t):
        seq = lst(H, L)
        r = IV(seq[i], inst, t)
        blk = U(event("Inv", seq[i], inst))  # callers see one block event per evaluated invariant
        rest = IW(L, inst, i + 1, r.end)
        return Res.ite(z3.Or(i < 0, i >= z3.Length(seq)), ok(t), Res.ite(r.kind == OK, rest.after(blk), Res(r.kind, r.val, r.cls, r.end, blk)))

    IW.bind(iw_body)


T.bind_defs = bind_defs


class AssertInvariant(FnSpec):
    addr = "_checkers.py::_assert_invariant"
    trace = True

    def __init__(self):
        self.methods = {"condition": self.cond}
        self.calls = {"_create_violation_error": self.viol_call}

    def R(self, c):
        return IV(c.ref("contract"), c.ref("instance"), c.pre.time)

    def setup(self, ex, st, a):
        T.bind_defs(st.copy())
        self.c, self.inst, self.t0 = a["contract"].t, a["instance"].t, st.time

    def init_trace(self, c):
        return self.R(c).ev

    def cond(self, ex, st, node, recv, args, kwargs):
        has_self = z3.Select(st.get("set", attr(st, recv.t, "condition_arg_set")), S("self"))
        n = ex.ordinal("oracle:Cond")
        if args or set(kwargs) - {"self"}:
            ok_ = z3.BoolVal(False)
        elif "self" in kwargs:
            ok_ = z3.And(has_self, kwargs["self"].t == self.inst)
        else:
            ok_ = z3.Not(has_self)
        ex.oblige(st, "oracle.Cond#%d.receives_self_iff_it_asks_for_it" % n, ok_, kind="callsite")
        return REG.oracle(ex, st, "Cond", recv.t, self.inst)

    def viol_call(self, ex, st, node, args, kwargs):
        rk = kwargs["resolved_kwargs"]
        n = ex.ordinal("viol")
        D, Vv = dom(st, rk.t), val(st, rk.t)
        k = z3.Int("k!iv")
        ex.oblige(st, "call[_create_violation_error]#%d.error_sees_exactly_self" % n, z3.And(
            z3.ForAll([k], z3.Select(D, k) == (k == S("self"))), z3.Select(Vv, S("self")) == self.inst), kind="callsite")
        st.assume(rk.t == RHOF(self.c, self.t0))  # prophecy: names the map allocated here
        return REG.calls["icontract._checkers._create_violation_error"](ex, st, node, args, kwargs)

    def ensures_ret(self, c, v):
        R = self.R(c)
        return [("returns_iff_invariant_holds", R.kind == OK), ("clock", c.post.time == R.end)]

    def ensures_raise(self, c, e):
        R = self.R(c)
        return [("raises_the_contracts_error_or_users_exception", z3.Or(z3.And(R.kind == FAIL, e.t == R.val), raise_matches(c, e.t, R))),
                ("clock", c.post.time == R.end)]

    def call_events(self, ex, st, c):
        REG.emit(ex, st, "Inv", c.ref("contract"), c.ref("instance"))
        st.time = self.R(c).end


class FindSelf(FnSpec):
    addr = "_checkers.py::_find_self"
    hints = {"param_names": "list", "args": "tuple", "kwargs": "dict"}

    def requires(self, c):
        return [("python.param_names_distinct", distinct_names(c.pre, c.ref("param_names")))]

    @staticmethod
    def where(st, pn, args, kwargs):
        names, argv = lst(st, pn), lst(st, args)
        p = PIDX(names, S("self"))
        positional = z3.And(p >= 0, p < z3.Length(names), names[p] == S("self"), p < z3.Length(argv))
        return positional, argv[p], z3.Select(dom(st, kwargs), S("self")), z3.Select(val(st, kwargs), S("self"))

    def ensures_ret(self, c, v):
        pos, a, has_kw, kwv = self.where(c.pre, c.ref("param_names"), c.ref("args"), c.ref("kwargs"))
        return [("the_argument_bound_to_self", v.t == z3.If(pos, a, kwv)), ("found", z3.Or(pos, has_kw))]

    def ensures_raise(self, c, e):
        pos, a, has_kw, kwv = self.where(c.pre, c.ref("param_names"), c.ref("args"), c.ref("kwargs"))
        return [("KeyError_iff_no_self", z3.And(z3.Not(pos), z3.Not(has_kw), builtin_exc(e.t, "KeyError", c.pre.ctr)))]


INV_SPECS = [AssertInvariant(), FindSelf()]
for s in INV_SPECS:
    REG.register(s)


# ---- the invariant wrappers -------------------------------------------------------------------------------------
from .wrapper import INPROG  # noqa: E402
RAISELX = z3.IntVal(5)  # the library raises a fresh exception of class cls; its cause is not specified

# method wrapper after the before-walk succeeded: Body, then the after-walk
MTAIL = Walk("inv_mtail", [B, I, I, I, I, I])  # am, L, inst, args, kwargs, tb
MWR = Walk("inv_mwr", [B, I, I, I, I, B, B, I])  # am, L, inst, args, kwargs, found, reentrant, t0
IWRAP = Walk("inv_init", [I, I, I, I, B, B, I])  # L, inst, args, kwargs, found, reentrant, t0
NWRAP = Walk("inv_new", [I, I, I])  # args, kwargs, t0
CLS_INVS = z3.Function("class_invariants_of", I, I)  # instance -> instance.__class__.__invariants__ (read after construction)


def _body(am, args, kwargs, tb, then):
    """Body(args, kwargs) at tb (awaited in async mode); `then(result, time, events)` continues after a return."""
    bev = U(event("Body", args, kwargs))
    v, w = RESP_VAL(tb), RESP_VAL(tb + 1)
    aev = z3.Concat(bev, U(event("Await", v)))
    sync = Res.ite(RESP_RAISES(tb), raiseu(v, tb + 1, bev), then(v, tb + 1, bev))
    asyn = Res.ite(RESP_RAISES(tb), raiseu(v, tb + 1, bev), Res.ite(RESP_RAISES(tb + 1), raiseu(w, tb + 2, aev), then(w, tb + 2, aev)))
    if am is False:
        return sync
    return Res.ite(am, asyn, sync)


def _after_walk(L, inst):
    def then(r, tp, ev):
        a = IW(L, inst, z3.IntVal(0), tp)
        return Res.ite(a.kind == OK, Res(OK, r, NONE, a.end, z3.Concat(ev, a.ev)), Res(a.kind, a.val, a.cls, a.end, z3.Concat(ev, a.ev)))
    return then


_prev_bind2 = T.bind_defs


def bind_defs2(H):
    _prev_bind2(H)
    plain = lambda r, tp, ev: Res(OK, r, NONE, tp, ev)
    MTAIL.bind(lambda am, L, inst, args, kwargs, tb: _body(am, args, kwargs, tb, _after_walk(L, inst)))

    def mwr(am, L, inst, args, kwargs, found, reent, t0):
        b = IW(L, inst, z3.IntVal(0), t0)
        tail = MTAIL(am, L, inst, args, kwargs, b.end)
        checked = Res.ite(b.kind == OK, tail.after(b.ev), b)
        return Res.ite(z3.Not(found), Res(RAISELX, None, clsref("KeyError"), t0, EMPTY),
                       Res.ite(reent, _body(am, args, kwargs, t0, plain), checked))

    MWR.bind(mwr)

    def iwrap(L, inst, args, kwargs, found, reent, t0):
        return Res.ite(z3.Not(found), Res(RAISELX, None, clsref("KeyError"), t0, EMPTY),
                       Res.ite(reent, _body(False, args, kwargs, t0, plain), _body(False, args, kwargs, t0, _after_walk(L, inst))))

    IWRAP.bind(iwrap)

    def nwrap(args, kwargs, t0):
        inst = RESP_VAL(t0)
        return _body(False, args, kwargs, t0, _after_walk(CLS_INVS(inst), inst))

    NWRAP.bind(nwrap)


T.bind_defs = bind_defs2


class _InvLoop:
    """for invariant in <list>: _assert_invariant(...) -- monitor form; K = what the enclosing contract expects next."""

    def __init__(self, spec, which):
        self.spec, self.which = spec, which

    def inv(self, c):
        sp = self.spec
        st = c.st
        L, inst = sp.loopL(c, self.which), sp.inst
        W0 = IW(L, inst, z3.IntVal(0), c.entry.time)
        Wi = IW(L, inst, c.i, st.time)
        K = sp.K(self.which, W0)
        out = [st.todo == (z3.Concat(Wi.ev, K) if K is not None else Wi.ev), Wi.eqs(W0)]
        if getattr(sp, "holds_marker", True):
            # C10: the object's marker is held while its invariants are evaluated (their re-entrant calls go unchecked)
            out.append(sp.marker(st))
        return out


def _raise_matches_x(c, e, R):
    return z3.Or(z3.And(R.kind == FAIL, e == R.val), raise_matches(c, e, R),
                 z3.And(R.kind == RAISELX, e >= c.pre.ctr, ISINST(e, R.cls)))


class _InvWrapperBase(FnSpec):
    kinds = {}
    trace = True
    key_var = "instance"

    def static_checks(self, fnode):
        from .wrapper import inprogress_is_a_contextvar
        return inprogress_is_a_contextvar()

    def common_requires(self, c):
        from .classes import rhas
        st, a = c.pre, c.a
        b0 = st.get("attr:ctx_binding", INPROG)
        found, inst = self.find(st, a)
        kls = attr(st, inst, "__class__")
        return [("installed_only_on_classes_with_invariant_lists", z3.Implies(found, z3.And([rhas(st, kls, d) for d in ("__invariants__", "__invariants_on_call__", "__invariants_on_setattr__")]))),("python.param_names_distinct", distinct_names(st, a["param_names"].t)),
                ("python.kwargs_is_a_dict", wf_dict(st, a["kwargs"].t)),
                ("contextvar.binding_is_none_or_a_set", z3.Or(b0 == NONE, z3.And(b0 > 2, b0 < st.ctr)))]

    def find(self, st, a):
        pos, av, has_kw, kwv = FindSelf.where(st, a["param_names"].t, a["args"].t, a["kwargs"].t)
        return z3.Or(pos, has_kw), z3.If(pos, av, kwv)

    def marker(self, st):
        b = st.get("attr:ctx_binding", INPROG)
        return z3.And(b != NONE, z3.Select(st.get("set", b), IDOF(self.inst)))

    def state_restored(self, c):
        b0 = self.b0
        b1 = c.post.get("attr:ctx_binding", INPROG)
        x = z3.Int("x!sr")
        return z3.If(b0 == NONE,
                     z3.Or(b1 == NONE, z3.And(b1 >= c.pre.ctr, z3.ForAll([x], z3.Not(z3.Select(c.post.get("set", b1), x))))),
                     z3.And(b1 == b0, z3.ForAll([x], z3.Select(c.post.get("set", b0), x) == z3.Select(c.pre.get("set", b0), x))))

    def body_oracle(self, ex, st, node, args, kwargs):
        k = ex.ordinal("oracle:Body")
        a, kw = kwargs.get("*"), kwargs.get("**")
        same = z3.BoolVal(False) if (args or a is None or kw is None) else z3.And(a.t == self.a["args"].t, kw.t == self.a["kwargs"].t)
        ex.oblige(st, "oracle.Body#%d.receives_the_identical_args_and_kwargs" % k, same, kind="C14", meta={"props": ["C14", "C03"]})
        if getattr(self, "holds_marker", True):
            ex.oblige(st, "oracle.Body#%d.marker_held_while_the_constructor_or_method_runs" % k, self.marker(st), kind="C10", meta={"props": ["C10", "C03"]})
        return REG.oracle(ex, st, "Body", self.a["args"].t, self.a["kwargs"].t)

    def mutation(self, what):
        def h(ex, st, node, recv, args, kwargs):
            if recv.py == "set":
                k = ex.ordinal("mut:" + what)
                ex.oblige(st, "in_progress.%s#%d.never_mutates_a_set_other_contexts_may_share" % (what, k), recv.t >= self.pre.ctr,
                          kind="C12", assume=False, meta={"props": ["C12"]})
            return None
        return h

    def ensures_ret(self, c, v):
        R = self.R
        return [("returns_iff_spec_returns", R.kind == OK), ("the_very_object_the_body_returned", c.ex.to_ref(c.post, v) == R.val),
                ("clock", c.post.time == R.end), ("suspension_state_restored", self.state_restored(c))]

    def ensures_raise(self, c, e):
        R = self.R
        return [("raises_what_the_spec_prescribes", _raise_matches_x(c, e.t, R)), ("clock", c.post.time == R.end),
                ("suspension_state_restored", self.state_restored(c))]

    def modifies(self, c):
        return [("attr:ctx_binding", INPROG)]  # never the (possibly shared) set itself: C12

    def init_trace(self, c):
        return self.R.ev


class MethodInvWrapper(_InvWrapperBase):
    addr = "_checkers.py::_decorate_with_invariants/wrapper[2]"
    am = F_
    free = {"func": None, "param_names": "list"}

    def __init__(self):
        self.calls = {"func": self.body_oracle}
        self.methods = {"add": self.mutation("add"), "discard": self.mutation("discard")}
        self.loops = {"invariants#0": _InvLoop(self, 0), "invariants#1": _InvLoop(self, 1)}

    def requires(self, c):
        return self.common_requires(c)

    def setup(self, ex, st, a):
        T.bind_defs(st.copy())
        self.pre, self.a = st.copy(), a
        self.found, self.inst = self.find(st, a)
        from .classes import rget
        cls = attr(st, self.inst, "__class__")
        is_setattr = attr(st, a["func"].t, "__name__") == S("__setattr__")
        self.L = z3.If(is_setattr, rget(st, cls, "__invariants_on_setattr__"), rget(st, cls, "__invariants_on_call__"))
        self.b0 = st.get("attr:ctx_binding", INPROG)
        self.reent = z3.And(self.b0 != NONE, z3.Select(st.get("set", self.b0), IDOF(self.inst)))
        self.t0 = st.time
        self.R = MWR(self.am, self.L, self.inst, a["args"].t, a["kwargs"].t, self.found, self.reent, self.t0)

    def loopL(self, c, which):
        return self.L

    def K(self, which, W0):
        if which == 1:
            return None
        a = self.a
        return z3.If(W0.kind == OK, MTAIL(self.am, self.L, self.inst, a["args"].t, a["kwargs"].t, W0.end).ev, EMPTY)


class MethodInvWrapperAsync(MethodInvWrapper):
    addr = "_checkers.py::_decorate_with_invariants/wrapper[1]"
    am = T_


class InitInvWrapper(_InvWrapperBase):
    addr = "_checkers.py::_decorate_with_invariants/wrapper[0]"
    free = {"func": None, "param_names": "list"}

    def __init__(self):
        self.calls = {"func": self.body_oracle}
        self.methods = {"add": self.mutation("add"), "discard": self.mutation("discard")}
        self.loops = {"instance.__class__.__invariants__": _InvLoop(self, 1)}

    def requires(self, c):
        return self.common_requires(c)

    def setup(self, ex, st, a):
        T.bind_defs(st.copy())
        self.pre, self.a = st.copy(), a
        self.found, self.inst = self.find(st, a)
        from .classes import rget
        self.L = rget(st, attr(st, self.inst, "__class__"), "__invariants__")
        self.b0 = st.get("attr:ctx_binding", INPROG)
        self.reent = z3.And(self.b0 != NONE, z3.Select(st.get("set", self.b0), IDOF(self.inst)))
        self.t0 = st.time
        self.R = IWRAP(self.L, self.inst, a["args"].t, a["kwargs"].t, self.found, self.reent, self.t0)

    def loopL(self, c, which):
        return self.L

    def K(self, which, W0):
        return None


class NewInvWrapper(_InvWrapperBase):
    addr = "_checkers.py::_decorate_new_with_invariants/wrapper"
    holds_marker = False  # the instance does not exist before __new__ returns; its invariants then run without a marker (depth <= 2)
    free = {"new_func": None}

    def __init__(self):
        self.calls = {"new_func": self.body_oracle}
        self.loops = {"instance.__class__.__invariants__": _InvLoop(self, 1)}

    def requires(self, c):
        return [("python.kwargs_is_a_dict", wf_dict(c.pre, c.a["kwargs"].t))]

    def setup(self, ex, st, a):
        T.bind_defs(st.copy())
        self.pre, self.a = st.copy(), a
        self.t0 = st.time
        self.inst = RESP_VAL(self.t0)
        self.b0 = st.get("attr:ctx_binding", INPROG)
        self.R = NWRAP(a["args"].t, a["kwargs"].t, self.t0)
        # the class (and its invariant list) of the object __new__ returns is read from the heap after construction
        from .classes import rget, rhas
        kls = attr(st, self.inst, "__class__")
        st.assume(rget(st, kls, "__invariants__") == CLS_INVS(self.inst), rhas(st, kls, "__invariants__"))
        REG.assumptions.add("the class of the object returned by a wrapped __new__ has __invariants__ (the wrapper is only installed on such classes)")

    def loopL(self, c, which):
        return CLS_INVS(self.inst)

    def K(self, which, W0):
        return None


INV_WRAPPERS = [MethodInvWrapper(), MethodInvWrapperAsync(), InitInvWrapper(), NewInvWrapper()]

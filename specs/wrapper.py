"""K_wrapper: the contract of the two checker closures returned by decorate_with_checker (DESIGN.md section 8).

Written from the statements of C01/C02/C08/C10/C11/C12/C14/C16/C19; one text, instantiated for the sync and the
async body (C13).
"""
import z3

from pyvc.base import V, NONE, TRUE, FALSE, I, B, ArrIB, T_DICT, ISINST, clsref, strref, objref, fresh, vbool, vint, IDOF
from pyvc.engine import FnSpec, apply_contract
from pyvc.registry import event, EMPTY, RESP_RAISES, RESP_VAL
from pyvc import extract
from .lib import REG, S, builtin_exc, dom, val, lst, attr, cause_of, qforall
from . import trace_funs as T
from .trace_funs import Res, OK, FAIL, RAISEU, RAISEL, CW, PW, KW, Walk, U, ok, raiseu, raisel
from .checkers_trace import raise_matches, F_, T_
from .binding import wf_dict, distinct_names

INPROG = objref("_IN_PROGRESS")
REG.globals["_IN_PROGRESS"] = V("ref", INPROG, "contextvar")
REG.external("contextvars.ContextVar.get/set", "get() returns the current context's binding (default None); set(x) rebinds it")


def inprogress_is_a_contextvar():
    """The trusted get/set semantics is that of contextvars.ContextVar: the module must bind _IN_PROGRESS to one,
    created with default=None (syntactic obligation on icontract/_checkers.py, C10 C11 C12)."""
    import ast
    tree, _ = extract.module_ast("_checkers.py")
    ok = False
    for n in tree.body:
        if isinstance(n, ast.Assign) and len(n.targets) == 1 and ast.unparse(n.targets[0]) == "_IN_PROGRESS":
            v = n.value
            ok = (isinstance(v, ast.Call) and ast.unparse(v.func) == "contextvars.ContextVar"
                  and any(k.arg == "default" and isinstance(k.value, ast.Constant) and k.value.value is None for k in v.keywords))
    imports_ok = any(isinstance(n, ast.Import) and any(a.name == "contextvars" and a.asname is None for a in n.names) for n in tree.body)
    return [("_IN_PROGRESS_is_a_contextvars.ContextVar_with_default_None", ok and imports_ok)]


def _cv_get(ex, st, node, recv, args, kwargs):
    if recv.py != "contextvar":
        return None
    return [(st, V("ref", st.get("attr:ctx_binding", recv.t), "set"))]


def _cv_set(ex, st, node, recv, args, kwargs):
    if recv.py != "contextvar":
        return None
    st.put("attr:ctx_binding", recv.t, ex.to_ref(st, args[0]))
    return [(st, V("ref", NONE))]


REG.methods["get"] = _cv_get
REG.methods["set"] = _cv_set


class UnpackPreSnapPosts(FnSpec):
    addr = "_checkers.py::_unpack_pre_snap_posts"
    may_raise = False

    def triple(self, st, w):
        return (V("ref", attr(st, w, "__preconditions__"), "list"), V("ref", attr(st, w, "__postcondition_snapshots__"), "list"),
                V("ref", attr(st, w, "__postconditions__"), "list"))

    def ensures_ret(self, c, v):
        if not (v.kind == "static" and isinstance(v.py, tuple) and len(v.py) == 3):
            return [("returns_a_triple", z3.BoolVal(False))]
        exp = self.triple(c.pre, c.ref("wrapper"))
        return [("lists_read_at_call_time_%d" % i, v.py[i].t == exp[i].t) for i in range(3)]


UNPACK = UnpackPreSnapPosts()
REG.fnspecs[UNPACK.addr] = UNPACK
REG.calls["_unpack_pre_snap_posts"] = lambda ex, st, node, args, kwargs: [(st, V("static", None, UNPACK.triple(st, args[0].t)))]

# the outcome of a whole checked call
WR = Walk("wr", [B, ArrIB, I, I, I, I, I, I, B, I])  # am, D1, rho, P, S, Q, args, kwargs, reentrant, t0


def _wr_body(H, am, D1, rho, P, Sn, Q, args, kwargs, reent, t0):
    hasQ = z3.Length(lst(H, Q)) > 0
    hasS = z3.Length(lst(H, Sn)) > 0
    KD = dom(H, kwargs)
    invalid = z3.Or(z3.Select(KD, S("_ARGS")), z3.Select(KD, S("_KWARGS")))
    bad_names = z3.And(hasQ, z3.Or(z3.Select(D1, S("result")), z3.Select(D1, S("OLD"))))
    bev = U(event("Body", args, kwargs))

    def body_then(tb, Dc, check_post):
        """The body is entered at time tb; Dc is the domain of rho at that moment."""
        v = RESP_VAL(tb)
        w = RESP_VAL(tb + 1)

        def returned(r, tp, ev):
            plain = Res(OK, r, NONE, tp, ev)
            if not check_post:
                return plain
            post = CW(am, z3.Not(am), z3.Store(Dc, S("result"), z3.BoolVal(True)), rho, Q, z3.IntVal(0), tp)
            pev = z3.Concat(ev, U(event("PostBlock", Q, rho)))
            judged = Res.ite(post.kind == OK, Res(OK, r, NONE, post.end, pev), Res(post.kind, post.val, post.cls, post.end, pev))
            return Res.ite(hasQ, judged, plain)

        sync = Res.ite(RESP_RAISES(tb), raiseu(v, tb + 1, bev), returned(v, tb + 1, bev))
        aev = z3.Concat(bev, U(event("Await", v)))
        asyn = Res.ite(RESP_RAISES(tb), raiseu(v, tb + 1, bev),
                       Res.ite(RESP_RAISES(tb + 1), raiseu(w, tb + 2, aev), returned(w, tb + 2, aev)))
        return Res.ite(am, asyn, sync)

    pre = PW(am, D1, rho, P, z3.IntVal(0), t0)
    pev = U(event("PreBlock", P, rho))
    cap = KW(am, D1, rho, Sn, z3.IntVal(0), pre.end)
    cev = U(event("CapBlock", Sn, rho))
    with_cap = Res.ite(cap.kind == OK, body_then(cap.end, z3.Store(D1, S("OLD"), z3.BoolVal(True)), True).after(cev),
                       Res(cap.kind, cap.val, cap.cls, cap.end, cev))
    accepted = Res.ite(z3.And(hasQ, hasS), with_cap, body_then(pre.end, D1, True))
    checked = Res.ite(pre.kind == OK, accepted.after(pev), Res(pre.kind, pre.val, pre.cls, pre.end, pev))
    return Res.ite(invalid, raisel("TypeError", NONE, t0),
                   Res.ite(reent, body_then(t0, D1, False), Res.ite(bad_names, raisel("TypeError", NONE, t0), checked)))


_bind_core = T.bind_defs


def bind_defs(H):
    _bind_core(H)
    WR.bind(lambda *a: _wr_body(H, *a))


class CheckerWrapper(FnSpec):
    addr = "_checkers.py::decorate_with_checker/wrapper[sync]"
    am = F_
    hints = {}
    kinds = {"id_func": "int"}
    free = {"func": None, "id_func": None, "param_names": "list", "kwdefaults": "dict", "wrapper": None, "positional_only": "set"}
    trace = True
    blocks = {"_assert_preconditions": "Pre", "_capture_old": "Cap", "_assert_postconditions": "Post"}

    def __init__(self):
        self.calls = {"func": self.body_oracle, "kwargs_from_call": self.kfc}
        for nm in self.blocks:
            self.calls[nm] = self.block(nm)
        self.methods = {"add": self.mutation("add"), "discard": self.mutation("discard")}

    # -- the objects the contract speaks about ----------------------------------------------------------------
    def parts(self, st, a):
        w = a["wrapper"].t
        return dict(P=attr(st, w, "__preconditions__"), S=attr(st, w, "__postcondition_snapshots__"), Q=attr(st, w, "__postconditions__"),
                    args=a["args"].t, kwargs=a["kwargs"].t, b0=st.get("attr:ctx_binding", INPROG), idf=a["id_func"].t)

    def static_checks(self, fnode):
        return inprogress_is_a_contextvar()

    def requires(self, c):
        st, a = c.pre, c.a
        p = self.parts(st, a)
        Sl = lst(st, p["S"])
        i, j = z3.Int("i!dn"), z3.Int("j!dn")
        return [
            ("closure.id_func", a["id_func"].t == IDOF(a["func"].t)),
            ("python.param_names_distinct", distinct_names(st, a["param_names"].t)),
            ("python.kwdefaults_is_a_dict", wf_dict(st, a["kwdefaults"].t)),
            ("python.kwargs_is_a_dict", wf_dict(st, a["kwargs"].t)),
            ("checker.snapshot_names_distinct", z3.ForAll([i, j], z3.Implies(
                z3.And(i >= 0, i < j, j < z3.Length(Sl)), attr(st, Sl[i], "name") != attr(st, Sl[j], "name")))),
            ("contextvar.binding_is_none_or_a_set", z3.Or(p["b0"] == NONE, z3.And(p["b0"] > 2, p["b0"] < st.ctr))),
        ]

    def setup(self, ex, st, a):
        bind_defs(st.copy())
        self.pre = st.copy()
        self.a = a
        self.p = self.parts(st, a)
        self.rho = fresh("ghost_rho")  # prophecy: the map kwargs_from_call will allocate ...
        self.D1 = fresh("ghost_D1", ArrIB)  # ... and its domain; bound (by assumption) where it is created
        self.reent = z3.And(self.p["b0"] != NONE, z3.Select(st.get("set", self.p["b0"]), self.p["idf"]))
        self.t0 = st.time
        p = self.p
        self.R = WR(self.am, self.D1, self.rho, p["P"], p["S"], p["Q"], p["args"], p["kwargs"], self.reent, self.t0)

    def init_trace(self, c):
        return self.R.ev

    # -- call sites with extra duties --------------------------------------------------------------------------
    def kfc(self, ex, st, node, args, kwargs):
        # C05: the resolved map is computed from the closure's own variables and this call's args/kwargs
        n = ex.ordinal("kfc")
        want = {"param_names": self.a["param_names"], "kwdefaults": self.a["kwdefaults"], "args": self.a["args"], "kwargs": self.a["kwargs"]}
        if "positional_only" in self.a:
            want["positional_only"] = self.a["positional_only"]
        same = z3.And([z3.BoolVal(False) if k not in kwargs else kwargs[k].t == v.t for k, v in want.items()] + [z3.BoolVal(not args)])
        ex.oblige(st, "call[kwargs_from_call]#%d.resolves_from_the_closure_variables_and_this_calls_arguments" % n, same, kind="C05",
                  meta={"props": ["C05", "C01", "C02"]})
        out = []
        for s, r in REG.calls["icontract._checkers.kwargs_from_call"](ex, st, node, args, kwargs):
            if isinstance(r, V):
                s.assume(r.t == self.rho, dom(s, r.t) == self.D1)
            out.append((s, r))
        return out

    def marker(self, st):
        b = st.get("attr:ctx_binding", INPROG)
        return z3.And(b != NONE, z3.Select(st.get("set", b), self.p["idf"]))

    def block(self, nm):
        def h(ex, st, node, args, kwargs):
            k = ex.ordinal("hold:" + nm)
            ex.oblige(st, "call[%s]#%d.marker_held_while_contracts_are_evaluated" % (nm, k), self.marker(st), kind="C10", meta={"props": ["C10"]})
            return REG.calls[nm](ex, st, node, args, kwargs)
        return h

    def body_oracle(self, ex, st, node, args, kwargs):
        k = ex.ordinal("oracle:Body")
        a, kw = kwargs.get("*"), kwargs.get("**")
        same = z3.BoolVal(False) if (args or a is None or kw is None or set(kwargs) != {"*", "**"}) else z3.And(a.t == self.p["args"], kw.t == self.p["kwargs"])
        ex.oblige(st, "oracle.Body#%d.receives_the_identical_args_and_kwargs" % k, same, kind="C14", meta={"props": ["C14", "C02"]})
        ex.oblige(st, "oracle.Body#%d.marker_released_for_the_body" % k, z3.Implies(z3.Not(self.reent), z3.Not(self.marker(st))),
                  kind="C10", assume=False, meta={"props": ["C10"]})
        return REG.oracle(ex, st, "Body", self.p["args"], self.p["kwargs"])

    def mutation(self, what):
        def h(ex, st, node, recv, args, kwargs):
            if recv.py == "set":
                k = ex.ordinal("mut:" + what)
                ex.oblige(st, "in_progress.%s#%d.never_mutates_a_set_other_contexts_may_share" % (what, k), recv.t >= self.pre.ctr,
                          kind="C12", assume=False, meta={"props": ["C12"]})
            return None
        return h

    # -- postconditions -------------------------------------------------------------------------------------------
    def state_restored(self, c):
        b0 = self.p["b0"]
        b1 = c.post.get("attr:ctx_binding", INPROG)
        x = z3.Int("x!sr")
        return z3.If(b0 == NONE,
                     z3.Or(b1 == NONE, z3.And(b1 >= c.pre.ctr, z3.ForAll([x], z3.Not(z3.Select(c.post.get("set", b1), x))))),
                     z3.And(b1 == b0, z3.ForAll([x], z3.Select(c.post.get("set", b0), x) == z3.Select(c.pre.get("set", b0), x))))

    def ensures_ret(self, c, v):
        R = self.R
        return [("returns_iff_spec_returns", R.kind == OK), ("the_very_object_the_body_returned", ex_ref(c, v) == R.val),
                ("clock", c.post.time == R.end), ("suspension_state_restored", self.state_restored(c))]

    def ensures_raise(self, c, e):
        R = self.R
        return [("raises_what_the_spec_prescribes", z3.Or(z3.And(R.kind == FAIL, e.t == R.val), raise_matches(c, e.t, R))),
                ("clock", c.post.time == R.end), ("suspension_state_restored", self.state_restored(c))]

    def modifies(self, c):
        # the in-progress set itself is in nobody's modifies clause (C12: a set that other contexts may share is
        # never changed in place); only the binding of the context variable changes, and it is restored
        return [("attr:ctx_binding", INPROG)]


def ex_ref(c, v):
    return c.ex.to_ref(c.post, v)


class CheckerWrapperAsync(CheckerWrapper):
    addr = "_checkers.py::decorate_with_checker/wrapper[async]"
    am = T_
    blocks = {"_assert_preconditions_async": "Pre", "_capture_old_async": "Cap", "_assert_postconditions_async": "Post"}


WRAPPERS = [CheckerWrapper(), CheckerWrapperAsync()]

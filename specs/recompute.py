"""icontract/_recompute.py: the re-evaluator, method by method, against the trusted semantics of specs/pysem.py (C06 C07).

Contract of `visit(n)` for a node outside comprehension scope (modular structural induction: each visit_X may assume it
for its strict sub-nodes): requires EV(n); ensures result == VAL(n), never the placeholder; every value recorded in
recomputed_values is Python's value of an evaluated node; performs only operations Python performed (DID_*)."""
import ast
import z3

from pyvc.base import V, NONE, TRUE, FALSE, I, B, SeqI, ArrIB, ArrII, T_DICT, T_LIST, ISINST, clsref, objref, fresh, vbool, vint, TY, field_sort, qforall
from pyvc.engine import FnSpec
from pyvc.symex import Raise
from .lib import REG, S, builtin_exc, dom, val, lst, attr
from . import pysem as P
from .pysem import VAL, EV, PLACEHOLDER, isn

REG.attr_hints.update({"recomputed_values": "dict", "_name_to_value": "dict", "values": "list", "elts": "list", "comparators": "list", "ops": "list",
                       "keys": "list", "keywords": "list", "generators": "list", "ifs": "list"})


def rvok(st, rv):
    """Soundness invariant of recomputed_values (C06): every recorded value is the value Python computed for that node."""
    k = z3.Int("k!rv")
    return qforall([k], z3.Implies(z3.Select(dom(st, rv), k), z3.And(z3.Select(val(st, rv), k) == VAL(k), EV(k))), patterns=[z3.Select(dom(st, rv), k)])


def _spec_hook(name):
    def h(ex, *a):
        f = getattr(ex.spec, name, None)
        return f(ex, *a) if f is not None else None
    return h


_prev_attr_hook = REG.attr_hook
REG.binop_hook = _spec_hook("py_binop")
REG.unop_hook = _spec_hook("py_unop")
REG.item_hook = _spec_hook("py_getitem")
REG.compare_hook = _spec_hook("py_compare")


def _attr_hook(ex, st, o, a):
    f = getattr(ex.spec, "py_getattr", None)
    if f is not None and not isinstance(a, str):
        return f(ex, st, o, a)
    return _prev_attr_hook(ex, st, o, a)


REG.attr_hook = _attr_hook
REG.calls["slice"] = lambda ex, st, node, args, kwargs: [(st, V("ref", P.MKSLICE(*[ex.to_ref(st, a) for a in args])))]


class VisitBase(FnSpec):
    """Shared by all visit_X units (regime: the node is outside comprehension scope)."""
    node_class = None
    records = True  # does the method record the node's value in recomputed_values?
    sem = None
    may_raise = False

    def __init__(self):
        self.methods = {"visit": self.visit_call}

    def rv(self, st, a):
        return attr(st, a["self"].t, "recomputed_values")

    def requires(self, c):
        st, a = c.pre, c.a
        n = a["node"].t
        rv, ntv = self.rv(st, a), attr(st, a["self"].t, "_name_to_value")
        return [("node_was_evaluated_by_python", EV(n)), ("node_class", isn(n, self.node_class)),
                ("recorded_values_are_pythons", rvok(st, rv)),
                ("python.visitor_fields", z3.And(rv > 2, rv < st.ctr, ntv > 2, ntv < st.ctr, rv != ntv, a["self"].t > 2, n > 2, n < st.ctr))]

    def setup(self, ex, st, a):
        self.a = a
        self.H = st.copy()
        for f in (self.sem(st, a["node"].t) if self.sem else []):
            st.assume(f)
        ex.registry.assumptions.add("trusted Python semantics of ast.%s (specs/pysem.py)" % self.node_class)

    def modifies(self, c):
        st, a = c.pre, c.a
        rv, ntv = self.rv(st, a), attr(st, a["self"].t, "_name_to_value")
        return [(f, r) for r in (rv, ntv) for f in ("ddom", "dval", "dord")]

    # -- the recursive call, by contract --------------------------------------------------------------------------
    def visit_call(self, ex, st, node, recv, args, kwargs):
        child = (kwargs.get("node") or args[0]).t
        k = ex.ordinal("visit")
        ex.oblige(st, "visit#%d.only_subexpressions_python_evaluated" % k, EV(child), kind="C07", meta={"props": ["C07", "C06"]})
        a = self.a
        rv, ntv = self.rv(st, a), attr(st, a["self"].t, "_name_to_value")
        old_dom, old_val = dom(st, rv), val(st, rv)
        for f in ("ddom", "dval", "dord"):
            st.put(f, rv, fresh("rv_" + f, field_sort(f).range()))
            st.put(f, ntv, fresh("ntv_" + f, field_sort(f).range()))
        kk = z3.Int("k!vc")
        st.assume(qforall([kk], z3.Implies(z3.Select(old_dom, kk), z3.And(z3.Select(dom(st, rv), kk), z3.Select(val(st, rv), kk) == z3.Select(old_val, kk))),
                          patterns=[z3.Select(old_dom, kk)]), rvok(st, rv))
        r = fresh("visited")
        st.assume(r == VAL(child), r != PLACEHOLDER, r < st.ctr)
        nc = fresh("ctr")
        st.assume(nc >= st.ctr)
        st.ctr = nc
        return [(st, V("ref", r, None))]

    # -- Python operations on recomputed values: opaque, allowed only if Python performed them ------------------------
    def _did(self, ex, st, what, fact):
        k = ex.ordinal("op:" + what)
        ex.oblige(st, "op.%s#%d.python_performed_this_operation" % (what, k), fact, kind="C07", meta={"props": ["C07", "C06"]})

    def truth_hook(self, ex, st, v, label):
        self._did(ex, st, "truth", P.DID_TRUTH(v.t))
        return [(st, P.TRUTHY(v.t))]

    def py_binop(self, ex, st, node, a, b):
        if a.kind != "ref" or b.kind != "ref":
            return None
        c = clsref("ast." + type(node.op).__name__)
        self._did(ex, st, "binop", P.DID_BINOP(c, a.t, b.t))
        return [(st, V("ref", P.BINOP(c, a.t, b.t)))]

    def py_unop(self, ex, st, node, v):
        c = clsref("ast." + type(node.op).__name__)
        self._did(ex, st, "unop", P.DID_UNOP(c, v.t))
        return [(st, V("ref", P.UNOP(c, v.t)))]

    def py_getattr(self, ex, st, o, name_term):
        self._did(ex, st, "getattr", P.DID_GETATTR(o.t, name_term))
        return [(st, V("ref", P.GETATTR(o.t, name_term)))]

    def py_getitem(self, ex, st, o, k):
        self._did(ex, st, "getitem", P.DID_GETITEM(o.t, ex.to_ref(st, k)))
        return [(st, V("ref", P.GETITEM(o.t, ex.to_ref(st, k))))]

    def py_compare(self, ex, st, op, a, b):
        if isinstance(op, (ast.Is, ast.IsNot)) or a.kind != "ref" or b.kind != "ref":
            return None  # identity is decided by the library itself
        c = clsref("ast." + type(op).__name__)
        self._did(ex, st, "compare", P.DID_CMP(c, a.t, b.t))
        return [(st, V("ref", P.CMP(c, a.t, b.t)))]

    # -- postcondition -------------------------------------------------------------------------------------------------
    def ensures_ret(self, c, v):
        pre, st, a = c.pre, c.post, c.a
        n = a["node"].t
        rv = self.rv(pre, a)
        k = z3.Int("k!er")
        out = [("the_value_python_computed", c.ex.to_ref(st, v) == VAL(n)),
               ("recorded_values_are_pythons", rvok(st, rv)),
               ("earlier_records_kept", qforall([k], z3.Implies(z3.Select(dom(pre, rv), k), z3.And(z3.Select(dom(st, rv), k), z3.Select(val(st, rv), k) == z3.Select(val(pre, rv), k))),
                                                patterns=[z3.Select(dom(pre, rv), k)]))]
        if self.records:
            out.append(("records_this_node", z3.And(z3.Select(dom(st, rv), n), z3.Select(val(st, rv), n) == VAL(n))))
        return out

    def ensures_raise(self, c, e):
        return [("total_on_evaluated_supported_nodes", z3.BoolVal(False))]


def unit(name, cls, sem, records=True, extra=None):
    ns = {"addr": "_recompute.py::Visitor." + name, "node_class": cls, "sem": staticmethod(sem) if sem else None, "records": records}
    ns.update(extra or {})
    return type("Spec_" + name, (VisitBase,), ns)()


RC_SPECS = [
    unit("visit_Constant", "Constant", P.sem_Constant),
    unit("visit_Expr", "Expr", P.sem_Expr),
    unit("visit_BinOp", "BinOp", P.sem_BinOp),
    unit("visit_UnaryOp", "UnaryOp", P.sem_UnaryOp),
    unit("visit_Attribute", "Attribute", P.sem_Attribute),
    unit("visit_Subscript", "Subscript", P.sem_Subscript),
    unit("visit_Slice", "Slice", P.sem_Slice),
    unit("visit_IfExp", "IfExp", P.sem_IfExp),
]

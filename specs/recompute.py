"""icontract/_recompute.py: the re-evaluator, method by method, against the trusted semantics of specs/pysem.py (C06 C07).

Contract of `visit(n)` for a node outside comprehension scope (modular structural induction: each visit_X may assume it
for its strict sub-nodes): requires EV(n); ensures result == VAL(n), never the placeholder; every value recorded in
recomputed_values is Python's value of an evaluated node; performs only operations Python performed (DID_*)."""
import ast
import z3

from pyvc.base import V, NONE, TRUE, FALSE, I, B, SeqI, ArrIB, ArrII, T_DICT, T_LIST, ISINST, clsref, objref, fresh, vbool, vint, TY, field_sort, qforall
from pyvc.engine import FnSpec
from pyvc.symex import Raise
from .lib import REG, S, builtin_exc, dom, val, lst, attr
from . import pysem as P
from .pysem import VAL, EV, PLACEHOLDER, isn

REG.attr_hints.update({"recomputed_values": "dict", "_name_to_value": "dict", "values": "list", "elts": "list", "comparators": "list", "ops": "list",
                       "keys": "list", "keywords": "list", "generators": "list", "ifs": "list"})


def rvok(st, rv):
    """Soundness invariant of recomputed_values (C06): every recorded value is the value Python computed for that node."""
    k = z3.Int("k!rv")
    return qforall([k], z3.Implies(z3.Select(dom(st, rv), k), z3.And(z3.Select(val(st, rv), k) == VAL(k), EV(k))), patterns=[z3.Select(dom(st, rv), k)])


def _spec_hook(name):
    def h(ex, *a):
        f = getattr(ex.spec, name, None)
        return f(ex, *a) if f is not None else None
    return h


_prev_attr_hook = REG.attr_hook
REG.binop_hook = _spec_hook("py_binop")
REG.unop_hook = _spec_hook("py_unop")
REG.item_hook = _spec_hook("py_getitem")
REG.compare_hook = _spec_hook("py_compare")


def _attr_hook(ex, st, o, a):
    f = getattr(ex.spec, "py_getattr", None)
    if f is not None and not isinstance(a, str):
        return f(ex, st, o, a)
    return _prev_attr_hook(ex, st, o, a)


REG.attr_hook = _attr_hook
REG.calls["slice"] = lambda ex, st, node, args, kwargs: [(st, V("ref", P.MKSLICE(*[ex.to_ref(st, a) for a in args])))]


class VisitBase(FnSpec):
    """Shared by all visit_X units (regime: the node is outside comprehension scope)."""
    node_class = None
    records = True  # does the method record the node's value in recomputed_values?
    sem = None
    may_raise = False
    # regime of these proofs: no operand is a PLACEHOLDER (the node is outside comprehension scope); the placeholder paths
    # are exercised by the expression replay family only (bounded), and the guard lists them as unreached
    expected_unreached = ("raise NotImplementedError", "PLACEHOLDER", "saw_placeholder = True", "continue")

    def __init__(self):
        self.methods = {"visit": self.visit_call}

    def rv(self, st, a):
        return attr(st, a["self"].t, "recomputed_values")

    def requires(self, c):
        st, a = c.pre, c.a
        n = a["node"].t
        rv, ntv = self.rv(st, a), attr(st, a["self"].t, "_name_to_value")
        return [("node_was_evaluated_by_python", EV(n)), ("node_class", isn(n, self.node_class)),
                ("recorded_values_are_pythons", rvok(st, rv)),
                ("python.visitor_fields", z3.And(rv > 2, rv < st.ctr, ntv > 2, ntv < st.ctr, rv != ntv, a["self"].t > 2, n > 2, n < st.ctr))]

    def setup(self, ex, st, a):
        self.a = a
        self.H = st.copy()
        for f in (self.sem(st, a["node"].t) if self.sem else []):
            st.assume(f)
        ex.registry.assumptions.add("trusted Python semantics of ast.%s (specs/pysem.py)" % self.node_class)

    def modifies(self, c):
        st, a = c.pre, c.a
        rv, ntv = self.rv(st, a), attr(st, a["self"].t, "_name_to_value")
        return [(f, r) for r in (rv, ntv) for f in ("ddom", "dval", "dord")]

    # -- the recursive call, by contract --------------------------------------------------------------------------
    def visit_call(self, ex, st, node, recv, args, kwargs):
        child = (kwargs.get("node") or args[0]).t
        k = ex.ordinal("visit")
        ex.oblige(st, "visit#%d.only_subexpressions_python_evaluated" % k, EV(child), kind="C07", meta={"props": ["C07", "C06"]})
        a = self.a
        rv, ntv = self.rv(st, a), attr(st, a["self"].t, "_name_to_value")
        old_dom, old_val = dom(st, rv), val(st, rv)
        for f in ("ddom", "dval", "dord"):
            st.put(f, rv, fresh("rv_" + f, field_sort(f).range()))
            st.put(f, ntv, fresh("ntv_" + f, field_sort(f).range()))
        kk = z3.Int("k!vc")
        st.assume(qforall([kk], z3.Implies(z3.Select(old_dom, kk), z3.And(z3.Select(dom(st, rv), kk), z3.Select(val(st, rv), kk) == z3.Select(old_val, kk))),
                          patterns=[z3.Select(old_dom, kk)]), rvok(st, rv))
        r = fresh("visited")
        st.assume(r == VAL(child), r != PLACEHOLDER, r < st.ctr)
        nc = fresh("ctr")
        st.assume(nc >= st.ctr)
        st.ctr = nc
        return [(st, V("ref", r, None))]

    # -- Python operations on recomputed values: opaque, allowed only if Python performed them ------------------------
    def _did(self, ex, st, what, fact):
        k = ex.ordinal("op:" + what)
        ex.oblige(st, "op.%s#%d.python_performed_this_operation" % (what, k), fact, kind="C07", meta={"props": ["C07", "C06"]})

    def truth_hook(self, ex, st, v, label):
        self._did(ex, st, "truth", P.DID_TRUTH(v.t))
        return [(st, P.TRUTHY(v.t))]

    def py_binop(self, ex, st, node, a, b):
        if a.kind != "ref" or b.kind != "ref":
            return None
        c = clsref("ast." + type(node.op).__name__)
        self._did(ex, st, "binop", P.DID_BINOP(c, a.t, b.t))
        return [(st, V("ref", P.BINOP(c, a.t, b.t)))]

    def py_unop(self, ex, st, node, v):
        c = clsref("ast." + type(node.op).__name__)
        self._did(ex, st, "unop", P.DID_UNOP(c, v.t))
        return [(st, V("ref", P.UNOP(c, v.t)))]

    def py_getattr(self, ex, st, o, name_term):
        self._did(ex, st, "getattr", P.DID_GETATTR(o.t, name_term))
        return [(st, V("ref", P.GETATTR(o.t, name_term)))]

    def py_getitem(self, ex, st, o, k):
        self._did(ex, st, "getitem", P.DID_GETITEM(o.t, ex.to_ref(st, k)))
        return [(st, V("ref", P.GETITEM(o.t, ex.to_ref(st, k))))]

    def py_compare(self, ex, st, op, a, b):
        if isinstance(op, (ast.Is, ast.IsNot)) or a.kind != "ref" or b.kind != "ref" or b.py is not None or a.py is not None:
            return None  # identity, and operations on the library's own containers, are the library's business
        c = clsref("ast." + type(op).__name__)
        self._did(ex, st, "compare", P.DID_CMP(c, a.t, b.t))
        return [(st, V("ref", P.CMP(c, a.t, b.t)))]

    # -- postcondition -------------------------------------------------------------------------------------------------
    def ensures_ret(self, c, v):
        pre, st, a = c.pre, c.post, c.a
        n = a["node"].t
        rv = self.rv(pre, a)
        k = z3.Int("k!er")
        out = [("the_value_python_computed", c.ex.to_ref(st, v) == VAL(n)),
               ("recorded_values_are_pythons", rvok(st, rv)),
               ("earlier_records_kept", qforall([k], z3.Implies(z3.Select(dom(pre, rv), k), z3.And(z3.Select(dom(st, rv), k), z3.Select(val(st, rv), k) == z3.Select(val(pre, rv), k))),
                                                patterns=[z3.Select(dom(pre, rv), k)]))]
        if self.records:
            out.append(("records_this_node", z3.And(z3.Select(dom(st, rv), n), z3.Select(val(st, rv), n) == VAL(n))))
        return out

    def ensures_raise(self, c, e):
        return [("total_on_evaluated_supported_nodes", z3.BoolVal(False))]


def unit(name, cls, sem, records=True, extra=None):
    ns = {"addr": "_recompute.py::Visitor." + name, "node_class": cls, "sem": staticmethod(sem) if sem else None, "records": records}
    ns.update(extra or {})
    return type("Spec_" + name, (VisitBase,), ns)()


RC_SPECS = [
    unit("visit_Constant", "Constant", P.sem_Constant),
    unit("visit_Expr", "Expr", P.sem_Expr),
    unit("visit_BinOp", "BinOp", P.sem_BinOp),
    unit("visit_UnaryOp", "UnaryOp", P.sem_UnaryOp),
    unit("visit_Attribute", "Attribute", P.sem_Attribute),
    unit("visit_Subscript", "Subscript", P.sem_Subscript),
    unit("visit_Slice", "Slice", P.sem_Slice),
    unit("visit_IfExp", "IfExp", P.sem_IfExp),
]


# ---- names -----------------------------------------------------------------------------------------------------------
BUILTINS = objref("module:builtins")
REG.globals["builtins"] = V("ref", BUILTINS, "builtins_module")
_prev_hasattr = REG.hasattr_hook


def _hasattr_hook(ex, st, o, a):
    if o.kind == "ref" and o.py == "builtins_module":
        return [(st, vbool(P.HAS_BUILTIN(S(a) if isinstance(a, str) else a)))]
    return _prev_hasattr(ex, st, o, a)


REG.hasattr_hook = _hasattr_hook


class VisitName(VisitBase):
    addr = "_recompute.py::Visitor.visit_Name"
    node_class = "Name"

    def setup(self, ex, st, a):
        self.a, self.H = a, st.copy()
        st.assume(*P.sem_Name(st, a["node"].t, attr(st, a["self"].t, "_name_to_value")))
        ex.registry.assumptions.add("trusted Python semantics of ast.Name (specs/pysem.py)")

    def py_getattr(self, ex, st, o, name_term):
        if o.py == "builtins_module":
            return [(st, V("ref", P.BUILTIN(name_term)))]
        return VisitBase.py_getattr(self, ex, st, o, name_term)


class VisitNamedExpr(VisitBase):
    addr = "_recompute.py::Visitor.visit_NamedExpr"
    node_class = "NamedExpr"
    sem = staticmethod(P.sem_NamedExprFull)

    def ensures_ret(self, c, v):
        st, a = c.post, c.a
        n = a["node"].t
        ntv = attr(c.pre, a["self"].t, "_name_to_value")
        tid = attr(c.pre, attr(c.pre, n, "target"), "id")
        return VisitBase.ensures_ret(self, c, v) + [("binds_the_target_for_what_follows", z3.And(z3.Select(dom(st, ntv), tid), z3.Select(val(st, ntv), tid) == VAL(n)))]


# ---- boolean operations and comparison chains (short-circuit order) -----------------------------------------------------
class _ChainLoop:
    """Shared shape of the two loops: operands are visited while Python evaluated them; `carry` is what the loop has
    established about the value so far."""
    var_kinds = {"saw_placeholder": "bool"}
    trace = False

    def __init__(self, spec):
        self.spec = spec

    def modifies(self, c):
        sp = self.spec
        rv, ntv = sp.rv(sp.H, sp.a), attr(sp.H, sp.a["self"].t, "_name_to_value")
        return [(f, r) for r in (rv, ntv) for f in ("ddom", "dval", "dord")]

    def common(self, c):
        sp, st = self.spec, c.st
        rv = sp.rv(sp.H, sp.a)
        k = z3.Int("k!cl")
        return [z3.Not(st.vars["saw_placeholder"].t), rvok(st, rv),
                qforall([k], z3.Implies(z3.Select(dom(sp.H, rv), k), z3.And(z3.Select(dom(st, rv), k), z3.Select(val(st, rv), k) == z3.Select(val(sp.H, rv), k))),
                        patterns=[z3.Select(dom(sp.H, rv), k)])]


class VisitBoolOp(VisitBase):
    addr = "_recompute.py::Visitor.visit_BoolOp"
    node_class = "BoolOp"
    sem = staticmethod(lambda H, n: P.sem_BoolOp(H, n) + P.truth_of_bools())

    class Loop(_ChainLoop):
        def inv(self, c):
            sp, st = self.spec, c.st
            vs = lst(sp.H, attr(sp.H, sp.a["node"].t, "values"))
            res = c.ex.to_ref(st, st.vars["result"])
            return self.common(c) + [z3.Implies(c.i < c.n, EV(vs[c.i])), z3.Implies(c.i >= 1, z3.And(res == VAL(vs[c.i - 1]), EV(vs[c.i - 1])))]

    def __init__(self):
        VisitBase.__init__(self)
        self.loops = {"enumerate(node.values)": self.Loop(self)}


class VisitCompare(VisitBase):
    addr = "_recompute.py::Visitor.visit_Compare"
    node_class = "Compare"
    sem = staticmethod(lambda H, n: P.sem_Compare(H, n) + P.truth_of_bools() + P.identity_comparisons())

    class Loop(_ChainLoop):
        def inv(self, c):
            sp, st = self.spec, c.st
            n = sp.a["node"].t
            cs = lst(sp.H, attr(sp.H, n, "comparators"))
            ops = lst(sp.H, attr(sp.H, n, "ops"))
            left0 = attr(sp.H, n, "left")
            operand = lambda x: z3.If(x == 0, left0, cs[x - 1])
            link = lambda x: P.CMP(P.OPCLS(ops[x]), VAL(operand(x)), VAL(cs[x]))
            res = c.ex.to_ref(st, st.vars["result"])
            left = c.ex.to_ref(st, st.vars["left"])
            return self.common(c) + [left == VAL(operand(c.i)), z3.Implies(c.i < c.n, EV(cs[c.i])),
                                     z3.Implies(c.i >= 1, z3.And(res == link(c.i - 1), EV(cs[c.i - 1])))]

    def __init__(self):
        VisitBase.__init__(self)
        self.loops = {"enumerate(zip(node.comparators, node.ops))": self.Loop(self)}


RC_SPECS += [VisitName(), VisitNamedExpr(), VisitBoolOp(), VisitCompare()]


# ---- displays and f-strings ----------------------------------------------------------------------------------------------
class AbsSeq(str):
    """Type hint of a V that denotes an abstract Python sequence value; carries the Seq term of its elements."""

    def __new__(cls, seq):
        o = str.__new__(cls, "absseq")
        o.seq = seq
        return o


_prev_comp_source = REG.comp_source_hook
_prev_contains2 = REG.contains_hook


def _comp_source(ex, st, target, src, j):
    if src.kind == "ref" and isinstance(src.py, AbsSeq):
        return {target.id: V("ref", src.py.seq[j])}, src.py.seq
    return _prev_comp_source(ex, st, target, src, j)


def _contains2(ex, st, container, item):
    if isinstance(container.py, AbsSeq):
        return z3.Contains(container.py.seq, z3.Unit(ex.to_ref(st, item)))
    return _prev_contains2(ex, st, container, item)


REG.comp_source_hook = _comp_source
REG.contains_hook = _contains2
REG.globals["str"] = V("ref", clsref("str"), "class")
REG.globals["Placeholder"] = V("ref", clsref("Placeholder"), "class")


class VisitDisplay(VisitBase):
    """visit_List / visit_Tuple / visit_Set / visit_JoinedStr: every element is visited (all are evaluated), the value is the
    abstract container of the element values."""
    field = "elts"
    mk = None

    def __init__(self):
        VisitBase.__init__(self)
        self.comps = {"[self.visit(node=elt) for elt in node.elts]": self.map_comp, "[self.visit(value_node) for value_node in node.values]": self.map_comp}
        self.calls = {"tuple": self.map_call(P.MKTUPLE), "set": self.map_call(P.MKSET)}
        self.methods = dict(self.methods, join=self.join)

    def visit_map(self, ex, st, l, wrap):
        es = lst(st, l)
        j = z3.Int("j!vm")
        k = ex.ordinal("visitmap")
        ex.oblige(st, "visit_all#%d.only_subexpressions_python_evaluated" % k, qforall([j], z3.Implies(z3.And(j >= 0, j < z3.Length(es)), EV(es[j]))),
                  kind="C07", meta={"props": ["C07", "C06"]})
        a = self.a
        rv, ntv = self.rv(st, a), attr(st, a["self"].t, "_name_to_value")
        old_dom, old_val = dom(st, rv), val(st, rv)
        for f in ("ddom", "dval", "dord"):
            st.put(f, rv, fresh("rv_" + f, field_sort(f).range()))
            st.put(f, ntv, fresh("ntv_" + f, field_sort(f).range()))
        kk = z3.Int("k!vm")
        st.assume(qforall([kk], z3.Implies(z3.Select(old_dom, kk), z3.And(z3.Select(dom(st, rv), kk), z3.Select(val(st, rv), kk) == z3.Select(old_val, kk))),
                          patterns=[z3.Select(old_dom, kk)]), rvok(st, rv))
        seq = P.VS(l)
        st.assume(qforall([j], z3.Implies(z3.And(j >= 0, j < z3.Length(seq)), seq[j] != PLACEHOLDER)),
                  z3.Not(z3.Contains(seq, z3.Unit(PLACEHOLDER))))  # the same fact, as the membership test reads it
        nc = fresh("ctr")
        st.assume(nc >= st.ctr)
        st.ctr = nc
        return V("ref", wrap(seq), AbsSeq(seq))

    def map_comp(self, ex, st, node):
        out = []
        for s, src in ex.eval(st, node.generators[0].iter):
            out.append((s, src if isinstance(src, Raise) else self.visit_map(ex, s, src.t, P.MKLIST)))
        return out

    def map_call(self, wrap):
        def h(ex, st, node, args, kwargs):
            g = args[0].py.payload  # the generator expression node
            out = []
            for s, src in ex.eval(st, g.generators[0].iter):
                out.append((s, src if isinstance(src, Raise) else self.visit_map(ex, s, src.t, wrap)))
            return out
        return h

    def join(self, ex, st, node, recv, args, kwargs):
        if args and isinstance(args[0].py, AbsSeq):
            return [(st, V("ref", P.JOIN(args[0].py.seq)))]
        return None


def display(name, cls, mk, field="elts", sem=None):
    ns = {"addr": "_recompute.py::Visitor." + name, "node_class": cls, "field": field,
          "sem": staticmethod(sem or P.sem_display(cls, mk))}
    return type("Spec_" + name, (VisitDisplay,), ns)()


RC_SPECS += [display("visit_List", "List", P.MKLIST), display("visit_Tuple", "Tuple", P.MKTUPLE), display("visit_Set", "Set", P.MKSET),
             display("visit_JoinedStr", "JoinedStr", None, field="values", sem=P.sem_JoinedStr)]

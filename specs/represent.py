"""icontract/_represent.py: which values are shown, in which order, through which repr (C20; message content C07)."""
import ast, os
import z3

from pyvc.base import V, NONE, TRUE, FALSE, I, B, SeqI, T_DICT, T_LIST, T_OBJ, ISINST, clsref, objref, fresh, vbool, TY, field_sort, qforall
from pyvc.engine import FnSpec
from pyvc.registry import event, EMPTY, SeqEv, RESP_RAISES, RESP_VAL
from pyvc.symex import Raise
from .lib import REG, S, builtin_exc, dom, val, lst, attr
from .binding import wf_dict, DPOS

REG.attr_hints.update({"reprs": "dict", "inputs": "tuple"})
INSPECT = {n: z3.Function("inspect_" + n, I, B) for n in ("isclass", "isfunction", "ismethod", "ismodule", "isbuiltin")}
STRLT = z3.Function("str_less_than", I, I, B)  # the order `sorted` uses on the keys (all keys are str)
SORTED = z3.Function("sorted_keys_of", z3.ArraySort(I, B), SeqI)  # domain -> its elements in ascending order
REG.external("sorted(dict.keys())", "the ascending permutation of the keys: same elements, strictly increasing in str order (library reference)")
REG.external("reprlib.Repr.repr", "user code (oracle): may call user __repr__; size limits are reprlib's")
ISLAMBDA = z3.Function("is_lambda", I, B)
FEIA = clsref("FirstExceptionInAll")
REG.globals["icontract._recompute.FirstExceptionInAll"] = V("ref", FEIA, "class")


def representable(v):
    return z3.Not(z3.Or([INSPECT[n](v) for n in ("isclass", "isfunction", "ismethod", "ismodule", "isbuiltin")]))


def sorted_facts(D, s):
    i, j, k = z3.Int("i!so"), z3.Int("j!so"), z3.Int("k!so")
    n = z3.Length(s)
    return [qforall([j], z3.Implies(z3.And(j >= 0, j < n), z3.Select(D, s[j]))),
            qforall([k], z3.Implies(z3.Select(D, k), z3.Contains(s, z3.Unit(k)))),
            qforall([i, j], z3.Implies(z3.And(i >= 0, i < j, j < n), z3.And(STRLT(s[i], s[j]), s[i] != s[j])))]


def _sorted(ex, st, node, args, kwargs):
    (o,) = args
    if not (o.kind == "ref" and o.py == "dict_keys"):
        raise ex.Unsupported("sorted() of %r" % (o,)) if hasattr(ex, "Unsupported") else Exception("sorted")
    D = dom(st, o.t)
    s = SORTED(D)
    st.assume(*sorted_facts(D, s))
    return [(st, ex.new_list(st, s))]


REG.calls["sorted"] = _sorted


class Representable(FnSpec):
    addr = "_represent.py::_representable"
    ret_kind = "bool"
    may_raise = False

    def ensures_ret(self, c, v):
        from .lib import boolterm
        return [("not_class_function_method_module_builtin", boolterm(v) == representable(c.ref("value")))]


REPRESENTABLE = REG.register(Representable())

# lines of the message, in ascending key order starting at position i: the events are the repr calls they make
RW = REG.specfun("repr_walk", [I, z3.ArraySort(I, B), z3.ArraySort(I, I), I, I, SeqEv])  # (a_repr, dom, val, i, t)
RWEND = REG.specfun("repr_walk_end", [I, z3.ArraySort(I, B), z3.ArraySort(I, I), I, I, I])
RWRAISES = REG.specfun("repr_walk_raises", [I, z3.ArraySort(I, B), z3.ArraySort(I, I), I, I, B])
# the example block of a failing all(): one repr per input, in the order given
IN_EV = REG.specfun("inputs_walk", [I, I, I, I, SeqEv])  # (a_repr, inputs tuple, j, t)
IN_END = REG.specfun("inputs_walk_end", [I, I, I, I, I])
IN_RAISES = REG.specfun("inputs_walk_raises", [I, I, I, I, B])


def bind_rw(H):
    def inputs(ar, tup, j, t):
        seq = lst(H, tup)
        pair = seq[j]
        v = lst(H, pair)[1]
        ev = z3.Unit(event("ReprV", ar, v))
        done = z3.Or(j < 0, j >= z3.Length(seq))
        return z3.And(
            IN_EV(ar, tup, j, t) == z3.If(done, EMPTY, z3.If(RESP_RAISES(t), ev, z3.Concat(ev, IN_EV(ar, tup, j + 1, t + 1)))),
            IN_END(ar, tup, j, t) == z3.If(done, t, z3.If(RESP_RAISES(t), t + 1, IN_END(ar, tup, j + 1, t + 1))),
            IN_RAISES(ar, tup, j, t) == z3.If(done, z3.BoolVal(False), z3.If(RESP_RAISES(t), z3.BoolVal(True), IN_RAISES(ar, tup, j + 1, t + 1))))
    IN_EV.defn = IN_END.defn = IN_RAISES.defn = inputs

    def walk(ar, D, Vv, i, t):
        s = SORTED(D)
        k = s[i]
        v = z3.Select(Vv, k)
        is_all = ISINST(v, FEIA)
        inp = attr(H, v, "inputs")
        ev1 = z3.Unit(event("ReprV", ar, v))
        done = z3.Or(i < 0, i >= z3.Length(s))
        here_ev = z3.If(is_all, IN_EV(ar, inp, z3.IntVal(0), t), ev1)
        here_end = z3.If(is_all, IN_END(ar, inp, z3.IntVal(0), t), t + 1)
        here_raises = z3.If(is_all, IN_RAISES(ar, inp, z3.IntVal(0), t), RESP_RAISES(t))
        return z3.And(
            RW(ar, D, Vv, i, t) == z3.If(done, EMPTY, z3.If(here_raises, here_ev, z3.Concat(here_ev, RW(ar, D, Vv, i + 1, here_end)))),
            RWEND(ar, D, Vv, i, t) == z3.If(done, t, z3.If(here_raises, here_end, RWEND(ar, D, Vv, i + 1, here_end))),
            RWRAISES(ar, D, Vv, i, t) == z3.If(done, z3.BoolVal(False), z3.If(here_raises, z3.BoolVal(True), RWRAISES(ar, D, Vv, i + 1, here_end))))
    RW.defn = RWEND.defn = RWRAISES.defn = walk


class ReprValues(FnSpec):
    addr = "_represent.py::repr_values"
    hints = {"resolved_kwargs": "dict"}
    trace = True
    trace_prefix_on_raise = True  # the recomputation stage (an external here) may raise before the walk starts
    ret_hint = "list"

    class ArgLoop:
        trace = False
        var_hints = {"val": None}

        def __init__(self, spec):
            self.spec = spec

        def modifies(self, c):
            r = c.st.vars["reprs"].t
            return [("ddom", r), ("dval", r), ("dord", r)]

        def inv(self, c):
            sp, st = self.spec, c.st
            r = st.vars["reprs"].t
            sel = c.entry.vars["selected_kwargs"].t
            D0, V0 = dom(c.entry, r), val(c.entry, r)
            Ds, Vs = dom(c.entry, sel), val(c.entry, sel)
            from pyvc.base import LIST_INDEX
            k = z3.Int("k!al")
            added = lambda x: z3.And(z3.Select(Ds, x), LIST_INDEX(c.seq, x) < c.i, representable(z3.Select(Vs, x)), z3.Not(z3.Select(D0, x)))
            return [qforall([k], z3.Select(dom(st, r), k) == z3.Or(z3.Select(D0, k), added(k)), patterns=[z3.Select(dom(st, r), k)]),
                    qforall([k], z3.Implies(z3.Select(dom(st, r), k), z3.Select(val(st, r), k) == z3.If(z3.Select(D0, k), z3.Select(V0, k), z3.Select(Vs, k))),
                            patterns=[z3.Select(val(st, r), k)])]

    class LineLoop:
        var_hints = {"writing": "list"}

        def __init__(self, spec):
            self.spec = spec

        def modifies(self, c):
            return [("list", c.st.vars["parts"].t)]

        def inv(self, c):
            sp, st = self.spec, c.st
            r = c.entry.vars["reprs"].t
            D, Vv = dom(c.entry, r), val(c.entry, r)
            return [st.todo == RW(sp.ar, D, Vv, c.i, st.time), z3.Length(lst(st, st.vars["parts"].t)) == c.i,
                    z3.Not(RWRAISES(sp.ar, D, Vv, c.i, st.time)) == z3.Not(RWRAISES(sp.ar, D, Vv, z3.IntVal(0), c.entry.time)),
                    RWEND(sp.ar, D, Vv, c.i, st.time) == RWEND(sp.ar, D, Vv, z3.IntVal(0), c.entry.time)]

    class InputLoop:
        var_hints = {}

        def __init__(self, spec):
            self.spec = spec

        def source(self, ex, st, it):
            """The inputs tuple and each pair in it existed when the collecting stage returned (assumed, python.heap_closed):
            name them, so that reads through them skip the lists this function allocated afterwards."""
            bound, n = st.ghost.get("closed_ctr", (self.spec.pre_ctr, 0))
            tup = fresh("inputs")
            st.assume(tup == it.t)
            st.mark_before(tup, n, bound)
            seq = lst(st, tup)

            def binder(ex, s, i):
                pair = fresh("pair")
                s.assume(pair == seq[i])
                s.mark_before(pair, n, bound)
                return V("ref", pair, "tuple")
            return seq, binder

        def modifies(self, c):
            return [("list", c.st.vars["writing"].t)]

        def inv(self, c):
            sp, st = self.spec, c.st
            i = c.entry.ghost["i:sorted(reprs.keys())#0"]
            r = c.entry.vars["reprs"].t
            D, Vv = dom(sp.H2, r), val(sp.H2, r)
            inp = attr(c.entry, c.entry.vars["value"].t, "inputs")
            te = c.entry.time
            K = z3.If(IN_RAISES(sp.ar, inp, z3.IntVal(0), te), EMPTY, RW(sp.ar, D, Vv, i + 1, IN_END(sp.ar, inp, z3.IntVal(0), te)))
            return [st.todo == z3.Concat(IN_EV(sp.ar, inp, c.i, st.time), K),
                    IN_RAISES(sp.ar, inp, c.i, st.time) == IN_RAISES(sp.ar, inp, z3.IntVal(0), te),
                    IN_END(sp.ar, inp, c.i, st.time) == IN_END(sp.ar, inp, z3.IntVal(0), te)]

    def __init__(self):
        self.loops = {"sorted(selected_kwargs.keys())": self.ArgLoop(self), "sorted(reprs.keys())": self.LineLoop(self), "value.inputs": self.InputLoop(self)}
        self.calls = {"sorted": self.sorted_call, "is_lambda": lambda ex, st, n, a, k: [(st, vbool(ISLAMBDA(k["a_function"].t)))],
                      "collect_variable_lookup": self.opaque, "icontract._recompute.Visitor": self.recompute_ctor, "Visitor": self.collector_ctor}
        self.methods = {"visit": self.stage1_visit, "repr": self.repr_call}

    def static_checks(self, fnode):
        """C20 (syntactic): the loops that produce message content iterate sorted(...) -- never a set or an unsorted dict
        view, so the text cannot depend on insertion order or the hash seed; values are rendered by a_repr.repr only."""
        loops_sorted = True
        for n in ast.walk(fnode):
            if isinstance(n, ast.For) and not (isinstance(n.iter, ast.Call) and ast.unparse(n.iter.func) == "sorted") and ast.unparse(n.iter) != "value.inputs":
                loops_sorted = False
        direct = [ast.unparse(n.func) for n in ast.walk(fnode) if isinstance(n, ast.Call) and ast.unparse(n.func) in ("repr", "str", "ascii", "format", "reprlib.repr")]
        fstrings = [n for n in ast.walk(fnode) if isinstance(n, ast.JoinedStr)]
        return [("message_loops_iterate_sorted_keys", loops_sorted), ("values_are_rendered_only_through_a_repr", not direct and not fstrings)]

    def requires(self, c):
        return [("python.resolved_kwargs_is_a_dict", wf_dict(c.pre, c.ref("resolved_kwargs"))), ("python.a_repr_allocated", z3.And(c.ref("a_repr") > 2)),
                ("caller.inspection_given_iff_the_condition_is_a_lambda", (c.ref("lambda_inspection") != NONE) == ISLAMBDA(c.ref("condition")))]

    def setup(self, ex, st, a):
        bind_rw(st.copy())
        self.a, self.ar = a, a["a_repr"].t
        self.pre_ctr = st.ctr
        self.walk = fresh("ghost_walk", SeqEv)
        self.n_sorted = 0
        self.r1dom = z3.K(I, z3.BoolVal(False))

    def init_trace(self, c):
        li = c.ref("lambda_inspection")
        return z3.Concat(z3.If(li != NONE, z3.Concat(z3.Unit(event("Recompute", c.ref("condition"))), z3.Unit(event("Recompute", li))), EMPTY), self.walk)

    # -- externals of the first stage (the recomputation is under contract in specs/recompute.py) ------------------------
    def opaque(self, ex, st, node, args, kwargs):
        return [(st, V("ref", fresh("lookup"), None))]

    def recompute_ctor(self, ex, st, node, args, kwargs):
        o = st.alloc(T_OBJ, "rcv")
        return [(st, V("ref", o, "stage1_recompute"))]

    def collector_ctor(self, ex, st, node, args, kwargs):
        o = st.alloc(T_OBJ, "collector")
        d = ex.new_dict(st, dom=fresh("collected_dom", z3.ArraySort(I, B)), val=fresh("collected_val", z3.ArraySort(I, I)), order=fresh("collected_ord", SeqI))
        st.put("attr:reprs", o, d.t)
        st.ghost["r1dom"] = dom(st, d.t)  # path-local: what the first stage collected
        st.ghost["closed_ctr"] = (st.ctr, len(st.allocs))
        return [(st, V("ref", o, "stage1_collect"))]

    def stage1_visit(self, ex, st, node, recv, args, kwargs):
        if recv.py == "stage1_recompute":
            return REG.oracle(ex, st, "Recompute", self.a["condition"].t)
        if recv.py == "stage1_collect":
            return REG.oracle(ex, st, "Recompute", self.a["lambda_inspection"].t)
        return None

    def sorted_call(self, ex, st, node, args, kwargs):
        out = _sorted(ex, st, node, args, kwargs)
        from pyvc.base import distinct_elements
        for s, r in out:
            s.assume(distinct_elements(lst(s, r.t)))  # definitional: a strictly increasing sequence has an index function
            from pyvc.base import LIST_INDEX
            k = z3.Int("k!sd")
            D = dom(s, args[0].t)
            seq = lst(s, r.t)
            s.assume(qforall([k], z3.Implies(z3.Select(D, k), z3.And(LIST_INDEX(seq, k) >= 0, LIST_INDEX(seq, k) < z3.Length(seq), seq[LIST_INDEX(seq, k)] == k)),
                             patterns=[z3.Select(D, k)]))
        self.n_sorted += 1
        if ast.unparse(node.args[0]) == "reprs.keys()":
            for s, r in out:
                reprs = s.vars["reprs"].t
                r1dom = s.ghost.get("r1dom", z3.K(I, z3.BoolVal(False)))
                self.H2 = s.copy()
                # C20: what is shown = what the recomputation collected + the representable arguments it does not shadow,
                # without _ARGS/_KWARGS unless the condition names them
                rk = self.a["resolved_kwargs"].t
                from .decorate import SIGOF, has_name
                sg = SIGOF(self.a["condition"].t)
                k = z3.Int("k!sh")
                sel = lambda x: z3.And(z3.Select(dom(s, rk), x), z3.Implies(x == S("_ARGS"), has_name(sg, S("_ARGS"))), z3.Implies(x == S("_KWARGS"), has_name(sg, S("_KWARGS"))))
                ex.oblige(s, "shown.exactly_collected_values_plus_representable_unshadowed_arguments", qforall([k], z3.And(
                    z3.Select(dom(s, reprs), k) == z3.Or(z3.Select(r1dom, k), z3.And(sel(k), representable(z3.Select(val(s, rk), k)))),
                    z3.Implies(z3.And(z3.Select(dom(s, reprs), k), z3.Not(z3.Select(r1dom, k))), z3.Select(val(s, reprs), k) == z3.Select(val(s, rk), k)))),
                    kind="C20", meta={"props": ["C20", "C06"]})
                s.assume(self.walk == RW(self.ar, dom(s, reprs), val(s, reprs), z3.IntVal(0), s.time))
                # not covered by this proof: the example block of a failing all(<generator>) (FirstExceptionInAll values);
                # the expression replay family exercises it (bounded)
                kk = z3.Int("k!fe")
                # Python: whatever is reachable from an existing dict exists already (older than anything allocated from here on)
                jj = z3.Int("j!fe")
                vk = z3.Select(val(s, reprs), kk)
                # (bound: the allocation counter when the collecting stage returned, or at entry when there was none)
                bound = s.ghost.get("closed_ctr", (self.pre_ctr, 0))[0]
                s.assume(qforall([kk], z3.And(vk < bound, attr(s, vk, "inputs") < bound), patterns=[z3.Select(val(s, reprs), kk)]))
                s.assume(qforall([kk, jj], z3.And(lst(s, attr(s, vk, "inputs"))[jj] < bound, lst(s, lst(s, attr(s, vk, "inputs"))[jj])[1] < bound)))
                REG.assumptions.add("python.heap_closed: the values shown, their inputs tuples and the pairs in them existed when the collecting stage returned (or at entry)")
        return out

    def repr_call(self, ex, st, node, recv, args, kwargs):
        k = ex.ordinal("repr")
        ex.oblige(st, "repr#%d.through_the_contracts_own_a_repr" % k, recv.t == self.ar, kind="C20", meta={"props": ["C20"]})
        return REG.oracle(ex, st, "ReprV", recv.t, ex.to_ref(st, args[0]), hint="opaque_str")

    def ensures_ret(self, c, v):
        return [("a_list_of_lines", v.t >= c.pre.ctr)]

    def ensures_raise(self, c, e):
        return []  # an exception of the recomputation stage or of a user __repr__ propagates (C11)


REPR_VALUES = ReprValues()
REPR_SPECS = [REPRESENTABLE, REPR_VALUES]


# ---- generate_message -------------------------------------------------------------------------------------------------
RB_END = z3.Function("repr_block_end", I, I, I, I, I)  # (condition, inspection, resolved, t) -> time after repr_values
from pyvc.symex_call import STR_FORMAT, STR_JOIN  # noqa: E402
from pyvc.base import TY as _TY, T_LIST as _TL  # noqa: E402


def _rv_call_events(self, ex, st, c):
    REG.emit(ex, st, "ReprBlock", c.ref("condition"), c.ref("resolved_kwargs"))
    st.time = RB_END(c.ref("condition"), c.ref("lambda_inspection"), c.ref("resolved_kwargs"), c.pre.time)


ReprValues.call_events = _rv_call_events
ReprValues.ret_fresh = _TL
ReprValues.ret_fields = ("list",)
REG.register(REPR_VALUES)
REG.calls["icontract._represent.repr_values"] = REG.calls["repr_values"]


class GenerateMessage(FnSpec):
    addr = "_represent.py::generate_message"
    hints = {"resolved_kwargs": "dict"}
    trace = True
    trace_prefix_on_raise = True
    ret_hint = "opaque_str"

    def __init__(self):
        self.calls = {"is_lambda": lambda ex, st, n, a, k: [(st, vbool(ISLAMBDA(k["a_function"].t)))], "inspect_lambda_condition": self.inspect,
                      "repr_values": self.values}

    def values(self, ex, st, node, args, kwargs):
        k = ex.ordinal("rv")
        ex.oblige(st, "call[repr_values]#%d.with_the_contracts_own_a_repr_and_this_calls_values" % k, z3.And(
            kwargs["a_repr"].t == attr(st, self.a["contract"].t, "_a_repr"), kwargs["resolved_kwargs"].t == self.a["resolved_kwargs"].t,
            kwargs["condition"].t == self.cond), kind="C20", meta={"props": ["C20", "C07"]})
        out = REG.calls["icontract._represent.repr_values"](ex, st, node, args, kwargs)
        for s, r in out:
            if isinstance(r, V):
                s.ghost["vals"] = r.t
        return out

    def static_checks(self, fnode):
        direct = [ast.unparse(n.func) for n in ast.walk(fnode) if isinstance(n, ast.Call) and ast.unparse(n.func) in ("repr", "str", "ascii", "reprlib.repr")]
        return [("no_value_is_rendered_outside_repr_values", not direct and not [n for n in ast.walk(fnode) if isinstance(n, ast.JoinedStr)])]

    def requires(self, c):
        return [("python.resolved_kwargs_is_a_dict", wf_dict(c.pre, c.ref("resolved_kwargs")))]

    def setup(self, ex, st, a):
        self.a = a
        self.cond = attr(st, a["contract"].t, "condition")
        self.li = fresh("ghost_inspection")

    def init_trace(self, c):
        cond = attr(c.pre, c.ref("contract"), "condition")
        return z3.Concat(z3.If(ISLAMBDA(cond), z3.Unit(event("Inspect", cond)), EMPTY), z3.Unit(event("ReprBlock", cond, c.ref("resolved_kwargs"))))

    def inspect(self, ex, st, node, args, kwargs):
        out = []
        for s, r in REG.oracle(ex, st, "Inspect", kwargs["condition"].t):
            if isinstance(r, V):
                s.assume(r.t != NONE, r.t == self.li)  # external: a lambda condition found in a decorator yields an inspection
            out.append((s, r))
        REG.external("_represent.inspect_lambda_condition", "user source inspection (inspect.findsource + asttokens): returns the inspection of the "
                     "lambda or raises; its decorator-finding loops are the unit inspect_decorator")
        return out

    def ensures_ret(self, c, v):
        pre, st = c.pre, c.post
        k = c.ref("contract")
        cond = attr(pre, k, "condition")
        loc, desc = attr(pre, k, "location"), attr(pre, k, "description")
        text = z3.If(ISLAMBDA(cond), attr(st, self.li, "text"), attr(pre, cond, "__name__"))
        U = z3.Unit
        e = z3.Empty(SeqI)
        head = z3.Concat(z3.If(loc != NONE, U(STR_FORMAT(S("{}:\n"), U(loc))), e), z3.If(desc != NONE, U(STR_FORMAT(S("{}: "), U(desc))), e), U(text))
        vals = lst(st, st.ghost["vals"]) if "vals" in st.ghost else fresh("no_vals", SeqI)
        return [("message_is_location_description_text_then_values",
                 (c.ex.to_ref(st, v) == STR_JOIN(S(""), z3.Concat(head, z3.If(
                     z3.Length(vals) == 0, e, z3.If(z3.Length(vals) == 1, z3.Concat(U(S(": ")), U(vals[0])), z3.Concat(U(S(":\n")), U(STR_JOIN(S("\n"), vals)))))))))]

    def ensures_raise(self, c, e):
        return []


GENERATE_MESSAGE = GenerateMessage()
REPR_SPECS.append(GENERATE_MESSAGE)


# ---- the collector: which recomputed values become lines ------------------------------------------------------------------
TEXT = z3.Function("atok_text_of", I, I, I)  # (atok, node) -> source text of the node
REG.external("asttokens.ASTTokens.get_text", "the source text of a node: a pure function of (atok, node)")
REG.attr_hints.update({"_recomputed_values": "dict", "_variable_lookup": "lookuplist"})
REG.elem_hints["lookuplist"] = "dict"


class CollectorVisit(FnSpec):
    """_represent.Visitor.visit_X: if the node has a recomputed value (and it passes the filter), reprs[text] = that value;
    then the children are visited (generic_visit) -- exactly once."""
    filtered = True  # _representable filter
    descends = True
    key_is_target = False
    needs_non_builtin = False
    trace = True
    may_raise = False

    class LookupLoop:
        trace = False
        var_kinds = {"is_builtin": "bool"}

        def __init__(self, spec):
            self.spec = spec

        def inv(self, c):
            j = z3.Int("j!ll")
            nid = attr(c.entry, self.spec.a["node"].t, "id")
            found_before = z3.Exists([j], z3.And(j >= 0, j < c.i, z3.Select(dom(c.entry, c.seq[j]), nid)))
            return [c.st.vars["is_builtin"].t == z3.Not(found_before)]

    def __init__(self):
        self.methods = {"get_text": self.get_text, "generic_visit": self.generic}
        self.loops = {"self._variable_lookup": self.LookupLoop(self)}

    def requires(self, c):
        st, a = c.pre, c.a
        o = a["self"].t
        return [("python.visitor_fields", z3.And(attr(st, o, "reprs") > 2, attr(st, o, "reprs") < st.ctr, attr(st, o, "_recomputed_values") > 2,
                                                  attr(st, o, "_recomputed_values") < st.ctr, attr(st, o, "reprs") != attr(st, o, "_recomputed_values")))]

    def setup(self, ex, st, a):
        self.a = a
        REG.elem_hints["list"] = REG.elem_hints.get("list")

    def init_trace(self, c):
        return z3.Unit(event("Visit", c.ref("node"))) if self.descends else EMPTY

    def get_text(self, ex, st, node, recv, args, kwargs):
        return [(st, V("ref", TEXT(recv.t, ex.to_ref(st, args[0])), "opaque_str"))]

    def generic(self, ex, st, node, recv, args, kwargs):
        n = (kwargs.get("node") or args[0]).t
        REG.emit(ex, st, "Visit", n)
        st.ghost["reprs_before_children"] = (dom(st, attr(st, self.a["self"].t, "reprs")), val(st, attr(st, self.a["self"].t, "reprs")))
        r = attr(st, self.a["self"].t, "reprs")
        for f in ("ddom", "dval", "dord"):
            st.put(f, r, fresh("children_" + f, field_sort(f).range()))
        return [(st, V("ref", NONE))]

    def modifies(self, c):
        r = attr(c.pre, c.ref("self"), "reprs")
        return [(f, r) for f in ("ddom", "dval", "dord")]

    def shown(self, c):
        st, a = c.pre, c.a
        o, n = a["self"].t, a["node"].t
        rv = attr(st, o, "_recomputed_values")
        has = z3.Select(dom(st, rv), n)
        v = z3.Select(val(st, rv), n)
        cond = has
        if self.filtered:
            cond = z3.And(cond, representable(v))
        if self.needs_non_builtin:
            j = z3.Int("j!nb")
            tables = lst(st, attr(st, o, "_variable_lookup"))
            cond = z3.And(cond, z3.Exists([j], z3.And(j >= 0, j < z3.Length(tables), z3.Select(dom(st, tables[j]), attr(st, n, "id")))))
        key = attr(st, attr(st, n, "target"), "id") if self.key_is_target else TEXT(attr(st, o, "_atok"), n)
        return cond, key, v

    def ensures_ret(self, c, v):
        pre, st = c.pre, c.post
        r = attr(pre, c.ref("self"), "reprs")
        cond, key, value = self.shown(c)
        D0, V0 = dom(pre, r), val(pre, r)
        D1, V1 = st.ghost.get("reprs_before_children", (dom(st, r), val(st, r)))
        k = z3.Int("k!cv")
        return [("records_the_recomputed_value_under_the_source_text_iff_selected", qforall([k], z3.And(
            z3.Select(D1, k) == z3.Or(z3.Select(D0, k), z3.And(cond, k == key)),
            z3.Implies(z3.Select(D1, k), z3.Select(V1, k) == z3.If(z3.And(cond, k == key), value, z3.Select(V0, k))))))]


def collector(name, **kw):
    ns = {"addr": "_represent.py::Visitor." + name}
    ns.update(kw)
    return type("Spec_collect_" + name, (CollectorVisit,), ns)()


COLLECT_SPECS = [collector("visit_JoinedStr", descends=False), collector("visit_Name", needs_non_builtin=True), collector("visit_Attribute"),
                 collector("visit_NamedExpr", key_is_target=True), collector("visit_Call", filtered=False), collector("visit_ListComp", filtered=False),
                 collector("visit_SetComp", filtered=False), collector("visit_DictComp", filtered=False), collector("visit_Subscript", filtered=False)]
REPR_SPECS += COLLECT_SPECS


# ---- inspect_decorator: which lines of the file are handed to the parser (C07, layout independence) -----------------------
DECO = z3.Function("line_starts_a_decorator", I, B)  # _DECORATOR_RE matches the line
DEFCLS = z3.Function("line_starts_def_or_class", I, B)  # _DEF_CLASS_RE matches the line
REG.external("re.Pattern.match", "a pure predicate of the line (the two regular expressions are read as abstract predicates)")
REG.globals["_DECORATOR_RE"] = V("ref", objref("_DECORATOR_RE"), "regex")
REG.globals["_DEF_CLASS_RE"] = V("ref", objref("_DEF_CLASS_RE"), "regex")


class InspectDecorator(FnSpec):
    addr = "_represent.py::inspect_decorator"
    hints = {"lines": "list"}
    kinds = {"lineno": "int"}

    class Up:
        trace = False
        var_kinds = {"i": "int"}

        def __init__(self, spec):
            self.spec = spec

        def inv(self, c):
            sp = self.spec
            j = z3.Int("j!up")
            lines = lst(c.entry, sp.a["lines"].t)
            ln = sp.a["lineno"].t
            return [c.st.vars["decorator_lineno"].t == NONE,
                    qforall([j], z3.Implies(z3.And(j > ln - c.i, j <= ln), z3.Not(DECO(lines[j]))))]

    class Down:
        trace = False
        var_kinds = {"i": "int"}
        var_hints = {"line": None}

        def __init__(self, spec):
            self.spec = spec

        def inv(self, c):
            sp = self.spec
            j = z3.Int("j!dn")
            lines = lst(c.entry, sp.a["lines"].t)
            ln = sp.a["lineno"].t
            return [c.st.vars["decorator_end_lineno"].t == NONE,
                    qforall([j], z3.Implies(z3.And(j > ln, j < ln + 1 + c.i), z3.Not(z3.Or(DECO(lines[j]), DEFCLS(lines[j])))))]

    def __init__(self):
        self.loops = {"range(lineno, -1, -1)": self.Up(self), "range(lineno + 1, len(lines))": self.Down(self)}
        self.methods = {"match": self.match, "join": self.join}
        self.calls = {"textwrap.dedent": self.opaque, "uuid.uuid4": self.opaque, "asttokens.asttokens.ASTTokens": self.parser, "DecoratorInspection": self.opaque}

    def setup(self, ex, st, a):
        self.a = a

    def match(self, ex, st, node, recv, args, kwargs):
        if recv.py != "regex":
            return None
        f = DECO if recv.t.eq(objref("_DECORATOR_RE")) else DEFCLS
        return [(st, vbool(f(ex.to_ref(st, args[0]))))]

    def opaque(self, ex, st, node, args, kwargs):
        r = fresh("ext")
        st.assume(r > 2, r < st.ctr)
        return [(st, V("ref", r, "opaque_str"))]

    def parser(self, ex, st, node, args, kwargs):
        """asttokens / ast.parse of the delimited text: external; raises SyntaxError when the delimited lines are not a
        complete decorator (the layout precondition of DESIGN.md C07 is violated)."""
        out = [(st.copy(), V("ref", fresh("atok"), None))]
        s2 = st.copy()
        e = fresh("parse_error")
        s2.assume(e > 2)
        ex.user_exception_facts(s2, e)
        out.append((s2, Raise(e)))
        return out

    def join(self, ex, st, node, recv, args, kwargs):
        """"".join(decorator_lines): the delimited lines are exactly lines[LO:HI] with LO the nearest decorator line at or
        above `lineno` and HI the nearest decorator/def/class line below it."""
        if not (args and args[0].kind == "ref" and args[0].py == "list" and ast.unparse(node.args[0]) == "decorator_lines"):
            return None
        a = self.a
        lines = lst(st, a["lines"].t)
        ln = a["lineno"].t
        # witnesses: the two indices the loops computed (any other way of computing them must supply its own)
        lo = ex.to_int(st, st.vars["decorator_lineno"]) if "decorator_lineno" in st.vars else fresh("LO")
        hi = ex.to_int(st, st.vars["decorator_end_lineno"]) if "decorator_end_lineno" in st.vars else fresh("HI")
        j = z3.Int("j!jn")
        k = ex.ordinal("delimit")
        ex.oblige(st, "delimit#%d.lines_from_nearest_decorator_above_to_nearest_statement_below" % k, (z3.And(
            lo >= 0, lo <= ln, DECO(lines[lo]), z3.ForAll([j], z3.Implies(z3.And(j > lo, j <= ln), z3.Not(DECO(lines[j])))),
            hi > ln, hi < z3.Length(lines), z3.Or(DECO(lines[hi]), DEFCLS(lines[hi])),
            z3.ForAll([j], z3.Implies(z3.And(j > ln, j < hi), z3.Not(z3.Or(DECO(lines[j]), DEFCLS(lines[j]))))),
            lst(st, args[0].t) == z3.SubSeq(lines, lo, hi - lo))), kind="C07", meta={"props": ["C07"]})
        return None

    def ensures_ret(self, c, v):
        return []

    def ensures_raise(self, c, e):
        return []  # ValueError / SyntaxError for lines that do not delimit a decorator: the documented errors


INSPECT_DECORATOR = InspectDecorator()
REPR_SPECS.append(INSPECT_DECORATOR)

"""Class model (DESIGN.md section 4): own namespace vs. lookup through the MRO.

A class K's own namespace (its __dict__) is the dict stored at the class ref itself (ddom/dval[K], keys are interned
names -- static and dynamic names alike).  Looking `a` up on K resolves to K's own entry if it has one, otherwise to
the entry of ANC(K, a), the provider among K's proper ancestors (a heap-independent ghost: the units under contract
never write to an ancestor's namespace -- that is exactly the frame C17 proves).  Which ancestor provides is not
modelled (every obligation is insensitive to it)."""
import z3

from pyvc.base import V, NONE, I, B, SeqI, T_CLASS, T_LIST, TY, clsref, objref, fresh, vbool, Unsupported
from .lib import REG, S, dom, val, lst, attr

ANC = z3.Function("ancestor_providing", I, I, I)  # (class, interned name) -> providing proper ancestor (or a class without it)
ISDBC = z3.Function("is_created_by_DBCMeta", I, B)
DUNDERS = ["__invariants__", "__invariants_on_call__", "__invariants_on_setattr__"]
REG.external("class attribute lookup", "getattr/hasattr on a class resolve to the class's own namespace entry, else to that of one proper ancestor (MRO); language reference 3.3.2")


def _n(a):
    return S(a) if isinstance(a, str) else a


def own_has(st, k, a):
    return z3.Select(dom(st, k), _n(a))


def own_get(st, k, a):
    return z3.Select(val(st, k), _n(a))


def rhas(st, k, a):
    return z3.Or(own_has(st, k, a), own_has(st, ANC(k, _n(a)), a))


def rget(st, k, a):
    return z3.If(own_has(st, k, a), own_get(st, k, a), own_get(st, ANC(k, _n(a)), a))


def anc_facts(st, k, a):
    an = ANC(k, _n(a))
    return [an != k, an < st.ctr]


def is_class(v):
    return v is not None and v.kind == "ref" and v.py == "class"


_prev_attr = REG.attr_hook
_prev_pure_attr = REG.pure_attr_hook


def _attr_hook(ex, st, o, a):
    if is_class(o) and not (isinstance(a, str) and a in ("__class__", "__module__", "__name__", "__qualname__")):
        k = ex.ordinal("clsattr")
        st.assume(*anc_facts(st, o.t, a))
        ex.oblige(st, "class_attribute#%d.%s.exists" % (k, a if isinstance(a, str) else "<dynamic>"), rhas(st, o.t, a), kind="callsite")
        v = rget(st, o.t, a)
        st.assume(v < st.ctr)
        return [(st, V("ref", v, REG.attr_hints.get(a) if isinstance(a, str) else None))]
    if not isinstance(a, str):
        return None
    return _prev_attr(ex, st, o, a)


def _hasattr_hook(ex, st, o, a):
    if is_class(o):
        st.assume(*anc_facts(st, o.t, a))
        return [(st, vbool(rhas(st, o.t, a)))]
    return None


def _setattr_hook(ex, st, o, a, v):
    if is_class(o):
        ex.dict_store(st, o.t, _n(a), ex.to_ref(st, v))  # setattr on a class writes its own namespace
        return [(st, V("ref", NONE))]
    return None


REG.attr_hook = _attr_hook
REG.hasattr_hook = _hasattr_hook
REG.setattr_hook = _setattr_hook
REG.attr_hints.update({"__class__": "class", "__invariants__": "list", "__invariants_on_call__": "list", "__invariants_on_setattr__": "list",
                       "check_on": "flag"})

FLAGIN = z3.Function("flag_contains", I, I, B)  # (flag value, member)
CALL_FLAG = objref("InvariantCheckEvent.CALL")
SETATTR_FLAG = objref("InvariantCheckEvent.SETATTR")
REG.globals["InvariantCheckEvent.CALL"] = V("ref", CALL_FLAG)
REG.globals["InvariantCheckEvent.SETATTR"] = V("ref", SETATTR_FLAG)
REG.external("enum.Flag.__contains__", "`member in flags` is a pure predicate of the two flag values")

_prev_contains = REG.contains_hook


def _contains_hook(ex, st, container, item):
    if container.py == "flag":
        return FLAGIN(container.t, ex.to_ref(st, item))
    return _prev_contains(ex, st, container, item)


REG.contains_hook = _contains_hook


def owns_what_it_resolves(st, k):
    """Class invariant of classes created by DBCMeta (established by _collapse_invariants + type.__new__): whenever one of
    the three invariant lists can be looked up on the class, the class owns a list of its own."""
    return z3.And([z3.Implies(rhas(st, k, a), own_has(st, k, a)) for a in DUNDERS])


def _pure_hasattr(ex, st, args):
    o, a = args
    name = a.py if a.kind == "str" else a.t
    if is_class(o):
        return vbool(rhas(st, o.t, name))
    if a.kind != "str":
        raise Unsupported("pure hasattr with a dynamic name on a non-class")
    return vbool(st.get("has:" + a.py, o.t))


REG.pure_calls["hasattr"] = _pure_hasattr

"""decorate_with_checker, resolve_kwdefaults, closures as heap objects, inspect.Signature and update_wrapper (externals)."""
import ast
import z3
from pyvc.base import qforall

from pyvc.base import (V, NONE, TRUE, FALSE, I, B, SeqI, T_DICT, T_LIST, T_FUNC, ISINST, clsref, strref, objref, fresh, vbool, vint, IDOF,
                       BOXINT, UNBOXINT, LIST_INDEX, distinct_elements, Marker, TY)
from pyvc.engine import FnSpec
from pyvc.registry import IS_COROFN
from pyvc.symex import Raise
from .lib import REG, S, builtin_exc, dom, val, lst, attr, cause_of, qforall

# ---- inspect.Signature (trusted external, language reference / inspect docs) ------------------------------------------
SIGOF = z3.Function("signature_of", I, I)  # callable -> its Signature object
PARAMS = z3.Function("sig_params", I, I)  # Signature -> tuple object of Parameter objects (in order)
NAMES = z3.Function("sig_names", I, SeqI)  # Signature -> the parameter names in order (a value)
EMPTY_DEFAULT = objref("inspect.Parameter.empty")
KINDS = {k: objref("inspect.Parameter." + k) for k in ("POSITIONAL_ONLY", "POSITIONAL_OR_KEYWORD", "VAR_POSITIONAL", "KEYWORD_ONLY", "VAR_KEYWORD")}
REG.globals["inspect.Parameter.empty"] = V("ref", EMPTY_DEFAULT)
for _k, _v in KINDS.items():
    REG.globals["inspect.Parameter." + _k] = V("ref", _v)
REG.external("inspect.signature", "returns a Signature whose parameters have pairwise distinct names, in declaration order; may raise for callables it cannot introspect")


def signature_facts(st, sg):
    ps = lst(st, PARAMS(sg))
    nm = NAMES(sg)
    j = z3.Int("j!sg")
    return [z3.Length(nm) == z3.Length(ps),
            qforall([j], z3.Implies(z3.And(j >= 0, j < z3.Length(ps)), nm[j] == attr(st, ps[j], "name")), patterns=[ps[j]]),
            qforall([j], z3.Implies(z3.And(j >= 0, j < z3.Length(nm)), nm[j] != NONE), patterns=[nm[j]]),  # names are str objects
            distinct_elements(nm), PARAMS(sg) > 2, PARAMS(sg) < st.ctr, sg > 2, sg < st.ctr]


def has_name(sg, x):
    nm = NAMES(sg)
    p = LIST_INDEX(nm, x)
    return z3.And(p >= 0, p < z3.Length(nm), nm[p] == x)


def _signature(ex, st, node, args, kwargs):
    f = ex.to_ref(st, args[0] if args else kwargs["obj"])
    out = []
    s1 = st.copy()
    sg = SIGOF(f)
    s1.assume(*signature_facts(s1, sg))
    REG.assumptions.add("type invariant python.Signature: distinct parameter names in declaration order")
    out.append((s1, V("ref", sg, "signature")))
    s2 = st.copy()
    e = fresh("sigexc")
    s2.assume(e > 2)
    ex.user_exception_facts(s2, e)
    s2.assume(z3.Function("signature_raises", I, B)(f), e == z3.Function("signature_exc", I, I)(f))
    s1.assume(z3.Not(z3.Function("signature_raises", I, B)(f)))
    out.append((s2, Raise(e)))
    return out


REG.calls["inspect.signature"] = _signature


_prev_attr_hook = REG.attr_hook
_prev_contains_hook = REG.contains_hook


def _attr_hook(ex, st, o, attr_name):
    if o.kind == "ref" and o.py == "signature" and attr_name == "parameters":
        return [(st, V("ref", o.t, "sigparams"))]
    return _prev_attr_hook(ex, st, o, attr_name)


def _contains_hook(ex, st, container, item):
    if container.py == "sigparams":
        return has_name(container.t, ex.to_ref(st, item))
    return _prev_contains_hook(ex, st, container, item)


REG.attr_hook = _attr_hook
REG.pure_attr_hook = lambda ex, st, o, a: (V("ref", o.t, "sigparams") if (o.kind == "ref" and o.py == "signature" and a == "parameters") else None)
REG.contains_hook = _contains_hook
REG.elem_hints["paramlist"] = None


def _m_keys(ex, st, node, recv, args, kwargs):
    if recv.py == "sigparams":
        return [(st, V("ref", recv.t, "sig_keys"))]
    return None


def _m_values(ex, st, node, recv, args, kwargs):
    if recv.py == "sigparams":
        return [(st, V("ref", PARAMS(recv.t), "tuple"))]
    return None


def _m_items(ex, st, node, recv, args, kwargs):
    if recv.py == "sigparams":
        return [(st, V("ref", recv.t, "sig_items"))]
    return None


REG.methods["keys"] = _m_keys
REG.methods["values"] = _m_values
REG.methods["items"] = _m_items


def _list_of(ex, st, node, args, kwargs):
    if len(args) == 1 and args[0].kind == "ref" and args[0].py == "sig_keys":
        return [(st, ex.new_list(st, NAMES(args[0].t)))]
    return ex.b_list(ex, st, node, args, kwargs)


REG.calls["list"] = _list_of

# ---- functools.update_wrapper (trusted external) ---------------------------------------------------------------------
COPIED = ["__module__", "__name__", "__qualname__", "__doc__", "__annotations__"]
TRACKED_DICT = ["__preconditions__", "__postconditions__", "__postcondition_snapshots__", "__is_invariant_check__", "__isabstractmethod__"]
REG.external("functools.update_wrapper", "copies __module__/__name__/__qualname__/__doc__/__annotations__, updates wrapper.__dict__ from wrapped.__dict__, sets __wrapped__ (functools docs)")


def _update_wrapper(ex, st, node, args, kwargs):
    w = (kwargs.get("wrapper") or args[0]).t
    f = (kwargs.get("wrapped") or args[1]).t
    for a in COPIED:
        st.put("attr:" + a, w, attr(st, f, a))
    for a in TRACKED_DICT:
        st.put("has:" + a, w, z3.Or(st.get("has:" + a, w), st.get("has:" + a, f)))
        st.put("attr:" + a, w, z3.If(st.get("has:" + a, f), attr(st, f, a), attr(st, w, a)))
    st.put("attr:__wrapped__", w, f)
    st.put("has:__wrapped__", w, z3.BoolVal(True))
    return [(st, V("ref", w, "func"))]


REG.calls["functools.update_wrapper"] = _update_wrapper


# ---- closures -------------------------------------------------------------------------------------------------------
def free_names(fnode):
    bound = {a.arg for a in fnode.args.args + fnode.args.kwonlyargs + fnode.args.posonlyargs}
    for x in (fnode.args.vararg, fnode.args.kwarg):
        if x:
            bound.add(x.arg)
    loads = set()
    for n in ast.walk(fnode):
        if isinstance(n, ast.Name):
            if isinstance(n.ctx, ast.Store):
                bound.add(n.id)
            else:
                loads.add(n.id)
        elif isinstance(n, ast.ExceptHandler) and n.name:
            bound.add(n.name)
    return sorted(loads - bound)


def _closure_value(ex, st, stmt):
    """`def wrapper(...)` inside a unit: a fresh function object whose captured variables are recorded as ghost
    attributes env:<name> (read when the closure's own contract is related to the enclosing function's, C05/C14)."""
    w = st.alloc(T_FUNC, "closure")
    st.put("attr:__def__", w, S("async" if isinstance(stmt, ast.AsyncFunctionDef) else "sync"))
    # which of the nested definitions of that name this is (the ordinal the unit addresses use: wrapper[0], wrapper[1], ...)
    from pyvc.extract import _children_defs
    same = [d for d in _children_defs(ex.unit_node.body) if d.name == stmt.name]
    st.put("attr:__defidx__", w, z3.IntVal(next((i for i, d in enumerate(same) if d is stmt), -1)))
    # a `def` creates a plain function object
    st.assume(z3.Function("inspect_isfunction", I, B)(w), z3.Not(ISINST(w, clsref("staticmethod"))), z3.Not(ISINST(w, clsref("classmethod"))))
    for a in TRACKED_DICT + ["__wrapped__"]:
        st.put("has:" + a, w, z3.BoolVal(False))
    st.ghost.setdefault("closures", {})
    st.ghost["closures"] = dict(st.ghost["closures"])
    st.ghost["closures"][w.get_id()] = (w, stmt, free_names(stmt))
    return V("ref", w, "func")


REG.closure_value = _closure_value


def seal_closures(ex, st):
    """At the end of the enclosing function: record the values of the captured variables (late binding)."""
    for w, stmt, names in st.ghost.get("closures", {}).values():
        for n in names:
            if n in st.vars:
                v = st.vars[n]
                st.put("attr:env:" + n, w, ex.to_ref(st, v))


REG.at_exit = seal_closures


class ResolveKwdefaults(FnSpec):
    addr = "_checkers.py::resolve_kwdefaults"
    hints = {"sign": "signature"}
    ret_fresh = T_DICT
    ret_fields = ("ddom", "dval", "dord")
    ret_hint = "dict"
    may_raise = False

    class Loop:
        trace = False

        def __init__(self, spec):
            self.spec = spec

        def modifies(self, c):
            r = c.st.vars["kwdefaults"].t
            return [("ddom", r), ("dval", r), ("dord", r)]

        def inv(self, c):
            return self.spec.content(c.entry, c.st, c.st.vars["kwdefaults"].t, self.spec.sg, c.i)

    def __init__(self):
        self.loops = {"sign.parameters.values()": self.Loop(self)}

    def requires(self, c):
        return [("python.signature_%d" % i, f) for i, f in enumerate(signature_facts(c.pre, c.ref("sign")))]

    def setup(self, ex, st, a):
        self.sg = a["sign"].t

    @staticmethod
    def content(H, st, r, sg, upto=None):
        ps, nm = lst(H, PARAMS(sg)), NAMES(sg)
        k = z3.Int("k!kd")
        p = LIST_INDEX(nm, k)
        inr = z3.And(p >= 0, p < z3.Length(nm), nm[p] == k)
        if upto is not None:
            inr = z3.And(inr, p < upto)
        has = z3.And(inr, attr(H, ps[p], "default") != EMPTY_DEFAULT)
        return [qforall([k], z3.Select(dom(st, r), k) == has, patterns=[z3.Select(dom(st, r), k), LIST_INDEX(nm, k)]),
                qforall([k], z3.Implies(z3.Select(dom(st, r), k), z3.Select(val(st, r), k) == attr(H, ps[p], "default")),
                        patterns=[z3.Select(val(st, r), k), LIST_INDEX(nm, k)])]

    def ensures_ret(self, c, v):
        f = self.content(c.pre, c.post, v.t, c.ref("sign"))
        return [("fresh", v.t >= c.pre.ctr), ("domain_is_parameters_with_defaults", f[0]), ("values_are_the_defaults", f[1])]


RKD = REG.register(ResolveKwdefaults())


def _param_names_comprehension():
    """The text of the comprehension that builds `param_names` on the current tree (keys the ghost index functions)."""
    from pyvc import extract
    u = extract.get_unit("_checkers.py::decorate_with_checker")
    for n in ast.walk(u.node):
        if isinstance(n, ast.Assign) and isinstance(n.targets[0], ast.Name) and n.targets[0].id == "param_names" and isinstance(n.value, ast.ListComp):
            return ast.unparse(n.value)
    return None


def closure_name_facts(H, st, sg, pn, po):
    """param_names = the names of the parameters that can be bound positionally, in order (exact filter semantics);
    positional_only = the set of names of the positional-only parameters."""
    from pyvc.symex_call import filter_map_axioms, comp_id
    ps, nm = lst(H, PARAMS(sg)), NAMES(sg)
    kind = lambda j: attr(H, ps[j], "kind")
    text = _param_names_comprehension()
    if text is None:
        return [lst(st, pn) == nm]  # the tree indexes every parameter name (no filtering comprehension)
    P = lambda j: z3.Not(z3.Or(kind(j) == KINDS["KEYWORD_ONLY"], kind(j) == KINDS["VAR_KEYWORD"]))
    facts = filter_map_axioms(ps, lst(st, pn), comp_id(text), P, lambda j: attr(H, ps[j], "name"))
    x, j = z3.Int("x!po"), z3.Int("j!po")
    facts.append(z3.ForAll([x], z3.Select(st.get("set", po), x) == z3.Exists([j], z3.And(
        j >= 0, j < z3.Length(ps), kind(j) == KINDS["POSITIONAL_ONLY"], attr(H, ps[j], "name") == x))))
    return facts


class DecorateWithChecker(FnSpec):
    addr = "_checkers.py::decorate_with_checker"
    ret_fresh = T_FUNC
    ret_fields = tuple(["attr:" + a for a in COPIED + TRACKED_DICT + ["__wrapped__", "__def__", "env:func", "env:id_func", "env:param_names", "env:kwdefaults", "env:wrapper", "env:positional_only"]]
                       + ["has:" + a for a in TRACKED_DICT + ["__wrapped__"]])
    ret_hint = "func"

    def requires(self, c):
        f = c.ref("func")
        return [("func_has_no_contract_lists", z3.Not(z3.Or([c.pre.get("has:" + a, f) for a in TRACKED_DICT[:3]])))]

    def reserved(self, c):
        sg = SIGOF(c.ref("func"))
        return z3.Or(has_name(sg, S("_ARGS")), has_name(sg, S("_KWARGS")))

    def ensures_ret(self, c, v):
        st, f, w = c.post, c.ref("func"), v.t
        sg = SIGOF(f)
        sr = z3.Function("signature_raises", I, B)(f)
        pn = attr(st, w, "env:param_names")
        kd = attr(st, w, "env:kwdefaults")
        content = ResolveKwdefaults.content(c.pre, st, kd, sg)
        out = [
            ("signature_available", z3.Not(sr)), ("no_reserved_parameter_names", z3.Not(self.reserved(c))),
            ("fresh_checker", w >= c.pre.ctr),
            ("a_plain_function", z3.And(z3.Function("inspect_isfunction", I, B)(w), z3.Not(ISINST(w, clsref("staticmethod"))), z3.Not(ISINST(w, clsref("classmethod"))))),
            ("async_closure_iff_coroutine_function", attr(st, w, "__def__") == z3.If(IS_COROFN(f), S("async"), S("sync"))),
            ("wrapped_is_func", z3.And(st.get("has:__wrapped__", w), attr(st, w, "__wrapped__") == f)),
            ("closure.func", attr(st, w, "env:func") == f),
            ("closure.id_func", UNBOXINT(attr(st, w, "env:id_func")) == IDOF(f)),
            ("closure.wrapper_is_the_checker_itself", attr(st, w, "env:wrapper") == w),
            ("closure.param_names_fresh", pn >= c.pre.ctr),
            ("closure.kwdefaults_domain", content[0]), ("closure.kwdefaults_values", content[1]),
        ]
        for i, fct in enumerate(closure_name_facts(c.pre, st, sg, pn, attr(st, w, "env:positional_only"))):
            out.append(("closure.positional_names_and_positional_only_%d" % i, fct))
        for a in TRACKED_DICT[:3]:
            l = attr(st, w, a)
            out.append(("fresh_empty_" + a, z3.And(st.get("has:" + a, w), l >= c.pre.ctr, z3.Length(lst(st, l)) == 0, l != w, TY(l) == T_LIST)))
        out.append(("three_distinct_lists", z3.Distinct(*[attr(st, w, a) for a in TRACKED_DICT[:3]])))
        for a in COPIED:
            out.append(("copies_" + a, attr(st, w, a) == attr(c.pre, f, a)))
        for a in TRACKED_DICT[3:]:
            out.append(("dict_entry_" + a, z3.And(st.get("has:" + a, w) == c.pre.get("has:" + a, f),
                                                  z3.Implies(c.pre.get("has:" + a, f), attr(st, w, a) == attr(c.pre, f, a)))))
        return out

    def ensures_raise(self, c, e):
        f = c.ref("func")
        sr = z3.Function("signature_raises", I, B)(f)
        return [("only_documented_rejections", z3.Or(z3.And(sr, e.t == z3.Function("signature_exc", I, I)(f)),
                                                     z3.And(z3.Not(sr), self.reserved(c), builtin_exc(e.t, "TypeError", c.pre.ctr))))]


DWC = REG.register(DecorateWithChecker())

"""Regenerate MANIFEST.json from the tables below (keeps it valid at all times)."""
import json

UNITS_A = "the 16 units of icontract/_checkers.py on the call path (helpers, not_check, pre/post walks, capture, kwargs_from_call, both checker closures)"
TRUST = ("Trusted: pyvc (the VC generator built here) and its encoding of the Python subset; z3; the externals and "
         "assumptions listed in the evidence file (A-FRAME: user callables do not mutate library-owned containers; "
         "Python's argument binding, contextvars, inspect predicates). Integers are mathematical.")

CLAIMS = {
    "C01": ("proof", "Every call path of both checker closures and of the precondition walk is proved against an exact expected-trace "
            "contract (monitor form): Body is emitted iff the disjunction-of-conjunctions walk accepts, no capture/body event follows a "
            "failing walk, and the raised object is the violation error of the first falsy condition of the last group; for all list "
            "lengths (loop invariants), all truth assignments and all raise points (oracles).", "8 C01"),
    "C02": ("proof", "Exact-trace contract of the checker closures: after a normal body return every postcondition is walked with "
            "result/OLD bound in the very map the conditions read; the caller gets the identical result ref; a body exception "
            "propagates as the identical ref with no PostBlock event.", "8 C02"),
    "C08": ("proof", "Capture walk contract (each snapshot exactly once, in list order, after PreBlock and before Body, only if "
            "postconditions and snapshots exist) and the content of the OLD object (exactly the captured values by name).", "8 C08"),
    "C10": ("proof", "Re-entrant and non-re-entrant entry of both checker closures: marker held at every contract block, released "
            "for the body, only the unit's own key is written; termination argument on paper (DESIGN.md).", "8 C10"),
    "C11": ("proof", "On every exit path of every unit of the call path (one path per raise point of user code, any exception class "
            "incl. BaseException) the suspension state equals the entry state and the raised object is the user's or the documented "
            "wrapper chaining it.", "8 C11"),
    "C13": ("proof", "One contract text, two bodies: each sync/async twin is proved against the same specification functions "
            "parameterised by the mode; mode-dependent clauses (await before judging / ValueError on sync) are explicit.", "8 C13"),
    "C16": ("proof", "Order and at-most-once are clauses of the exact expected traces (pre walk, capture walk, post walk, "
            "closure: PreBlock, CapBlock, Body, PostBlock) proved for both modes.", "8 C16"),
}

CLAIMS["C05"] = ("proof", "kwargs_from_call is proved against the closed form of the resolved map (three loop invariants); "
                 "resolve_kwdefaults and decorate_with_checker are proved to establish the closure facts; the binding theorem "
                 "(resolved value == the object Python binds, for every named non-variadic parameter of every signature and every "
                 "call that binds) is a scripted quantifier-free proof with two inductions over the parameter index; the select_* "
                 "functions pass the resolved refs through.", "8 C05")

CLAIMS["C12"] = ("other", "Sequential obligations proved for all six wrappers (frame: no shared state written except the context "
                 "variable's binding, restored on every exit; no in-place mutation of a set that existed before the call); the reduction "
                 "from these to 'for all interleavings and context-inheritance modes' is a paper argument over contextvars semantics and "
                 "is listed as an unchecked assumption. Replays: asyncio tasks / copied-context threads with explicit hand-offs.", "8 C12")

CLAIMS["C09"] = ("proof", "_create_violation_error is proved against the decision table over the kind of `error` (None -> fresh ViolationError "
                 "with the generated message; function/method -> called once with exactly the named values, result returned as is or TypeError; "
                 "exception class -> instantiated with the message; instance -> that very object); the walks raise exactly that object; the three "
                 "decorator constructors are proved against one validation spec (ValueError for any other kind, nothing inspected when disabled); "
                 "Contract.__init__ establishes the error_args invariant the table relies on.", "8 C09")
CLAIMS["C15"] = ("proof", "Disabled: the four decorator constructors return before reading condition/capture/error (no allocation, no event) and "
                 "the three function-decorator __call__ return the identical object with an unchanged heap; the default of `enabled` is the "
                 "expression __debug__ (syntactic obligation); SLOW == __debug__ and ICONTRACT_SLOW non-empty (symbolic evaluation of the module "
                 "statement). Mode independence: every assert in every unit under contract is an obligation proved never to fail, so "
                 "deleting them (-O) changes nothing. A subprocess replay runs the decorators under -O.", "8 C15")
CLAIMS["C19"] = ("proof", "Guard table: decorate_with_checker raises TypeError for _ARGS/_KWARGS parameters before any wrapper exists; both checker "
                 "closures raise TypeError for _ARGS/_KWARGS keywords before any event and for result/OLD with postconditions before any condition; "
                 "invariant.__init__ raises ValueError for coroutine-function conditions and foreign mandatory arguments; the error validation in all "
                 "three decorators; Snapshot.__init__ and snapshot.__call__ (no postcondition, duplicate names).", "8 C19")

CLAIMS["C04"] = ("proof", "_decorate_namespace_function is proved against the effective contracts written from the statement (preconditions: "
                 "nothing inherited if a base providing the member declares none, else the bases' groups in order then the own group; TypeError "
                 "when weakening nothing; postconditions and snapshots concatenated, duplicate names rejected; constructors inherit nothing; "
                 "an existing checker is kept, a new one wraps the function in the same static/class-method kind); the four _collapse_* helpers, "
                 "_dbc_decorate_namespace (every function/property member dispatched exactly once, in order) and DBCMeta.__new__ (order: merge, "
                 "type.__new__, invariant wrapping iff the class has invariants, registration) are proved; how the merged lists are *evaluated* "
                 "(OR of groups, AND of postconditions) is the contract of the walks. _decorate_namespace_property is proved too (per accessor: same clauses, "
                 "plus a frame invariant over its three iterations); members a class body merely binds again from a base are left alone (F21).", "8 C04")
CLAIMS["C17"] = ("proof", "Frame obligations: in every unit that defines a class or decorates a function, no pre-existing list object is mutated "
                 "except the lists owned by the checker/class being decorated (merged lists are fresh objects; invariant.__call__ appends only to "
                 "lists in the class's own namespace; _collapse_invariants gives a subclass its own list whenever a base has one), no namespace "
                 "other than the new class's is written, the only attributes rebound are the three lists of the member's own checker, and that checker "
                 "is never the one through which a base class provides the member (contracts_of_every_base_are_left_as_they_were, functions and "
                 "properties: F21).", "8 C17")
CLAIMS["C18"] = ("proof", "The lists introspection shows are the effective contracts (post of _decorate_namespace_function / _collapse_invariants / "
                 "add_*_to_checker); find_checker returns the innermost object carrying the lists; both checker closures read the three lists from "
                 "that very object at call time (closure fact wrapper is the checker itself + _unpack_pre_snap_posts) and judge a call exactly as the "
                 "walk specifications say; DBCMeta.__new__ emits exactly one registration event iff the class is defined outside icontract._metaclass.", "8 C18")
CLAIMS["C14"] = ("proof", "Identity clauses of all six wrappers (the body receives the identical args/kwargs objects, the caller the identical result or "
                 "exception object), decorate_with_checker (update_wrapper contract: name/qualname/doc/module/annotations/__dict__/__wrapped__, async "
                 "closure iff coroutine function), find_checker + require/ensure/snapshot.__call__ (single checker, argument returned when a checker "
                 "exists), invariant.__call__ (returns the very class). Recorded finding F13 (object.__new__ argument rule below an invariant "
                 "class without __init__) is re-played by the check on every run.", "8 C14")

CLAIMS["C03"] = ("proof", "Proved: the four invariant wrappers (exact traces: invariants selected by check-on before and after the body, body not "
                 "entered after a failing before-invariant, constructor: only the outermost one checks, afterwards, all invariants; nothing while the "
                 "object is under construction; identity of result/exception; state restored; marker held while invariants and the body run), "
                 "_assert_invariant, invariant.__init__/__call__ (three lists per check_on, own lists only), _collapse_invariants, DBCMeta.__new__, and "
                 "add_invariant_checks against postconditions written from the statement (public and dunder Python methods and property accessors "
                 "wrapped; non-public, class/static methods, __repr__, __getattribute__ never touched; the constructor wrapped as a constructor, "
                 "__new__ when there is no Python constructor) -- three loops with ghost state (selected names as sequence, set and position index). "
                 "The factories _decorate_with_invariants/_decorate_new_with_invariants are proved too (the function itself if it already checks "
                 "invariants, else the closure for this kind of member -- constructor, async method, method -- around it, capturing func and the "
                 "signature's parameter names). Trusted: dir() lists distinct resolvable names; _already_decorated_with_invariants is a pure "
                 "predicate. BOUNDED in addition: the composition on real classes "
                 "(52 class programs against a reference written from the statement; never counted in obligations/discharged).", "8 C03")

CLAIMS["C06"] = ("proof", "Structural induction realised as modular verification: every visit_X of _recompute.Visitor under contract (Constant, "
                 "Expr, Name, NamedExpr, UnaryOp, BinOp, BoolOp, Compare, IfExp, Attribute, Subscript, Slice, List, Tuple, Set, JoinedStr) is proved "
                 "against a trusted specification of Python's expression semantics: the result is the value Python computed, every entry of "
                 "recomputed_values is such a value; the collector methods of _represent.Visitor put exactly the recomputed value of the node under "
                 "its source text; repr_values shows exactly those plus the representable, unshadowed arguments. NOT proved, BOUNDED (expression "
                 "replay family against CPython): visit_Call, visit_Dict, visit_FormattedValue's string assembly, the comprehension visitors, the "
                 "all()-tracing (_trace_all_with_generator, _translate_all_expression_to_a_module), Visitor.__init__, collect_variable_lookup. "
                 "Recorded findings: F8c, F9.", "8 C06")
CLAIMS["C07"] = ("proof", "(a) Every recursive visit and every re-applied Python operation in the visit methods under contract carries the "
                 "obligation 'Python itself evaluated this sub-expression / performed this operation' (short-circuit of and/or/comparison "
                 "chains/conditional expressions), and the methods are total on evaluated nodes, so message building raises nothing foreign and "
                 "evaluates nothing Python skipped; (b) generate_message's text is location, description, condition text, then the value part, "
                 "proved as an equation over string pieces; (c) inspect_decorator's two scanning loops delimit exactly the lines from the nearest "
                 "decorator line at or above the lambda to the nearest decorator/def/class line below. Layout independence holds under the stated "
                 "precondition (no continuation line of the decorator starts with @identifier, def, class): F9 is the recorded counter-layout. "
                 "visit_Call/visit_Dict/comprehension visitors: bounded (expression replay family); F8c recorded.", "8 C07")
CLAIMS["C20"] = ("proof", "repr_values: the two loops that produce lines iterate sorted(...) of the keys (syntactic obligation + exact expected "
                 "trace of repr calls in ascending key order), every value is rendered by a call of the contract's own a_repr.repr (obligation at "
                 "each call; no repr()/str()/f-string on values: syntactic obligation), the shown set is exactly collected values + representable "
                 "unshadowed arguments without _ARGS/_KWARGS unless the condition names them; generate_message passes the contract's _a_repr and "
                 "this call's values; _representable is the five-way filter. Size limits are reprlib's (trusted). The example block of a failing "
                 "all(<generator>) is inside the proof (one a_repr.repr per input, in order).", "8 C20")

NOT_YET = {
}


def main():
    checks = []
    for pid, (cat, text, ref) in sorted(CLAIMS.items()):
        checks.append({
            "property_id": pid,
            "quick_cmd": "./check %s --tier quick" % pid,
            "thorough_cmd": "./check %s --tier thorough" % pid,
            "evidence_file": "/verif/evidence/%s.json" % pid,
            "replay_cmd_template": "PYTHONPATH=/repo /venv/bin/python /verif/replay/%s --scenario {path}" % ({"C05": "bindfam.py", "C12": "ctxfam.py", "C15": "defnfam.py", "C19": "defnfam.py", "C14": "defnfam.py", "C03": "invfam.py", "C06": "exprfam.py", "C07": "exprfam.py", "C20": "exprfam.py", "C04": "histfam.py", "C17": "histfam.py", "C18": "histfam.py"}.get(pid, "callfam.py")),
            "engine": "pyvc",
            "level_claimed": {"category": cat, "text": text + " The units under contract are listed with their AST hashes in the evidence file.", "design_ref": "DESIGN.md section " + ref},
            "level_note": TRUST,
            "technique": "contract-based deductive verification: VCs generated from the AST of the real functions against sidecar contracts, discharged by z3",
        })
    m = {
        "version": 1,
        "setup_cmd": "true",
        "hooks": {"guard": "ICONTRACT_VERIF", "enable": "no hooks: sidecar specs only, /repo is parsed, never patched for verification",
                  "baseline_off_cmd": "cd /repo && /venv/bin/python -m pytest -q -p no:cacheprovider --timeout=900", "source_commits": [], "add_only": True},
        "engines": [{"name": "pyvc", "path": "/verif/pyvc", "serves_properties": sorted(CLAIMS),
                     "kind_free_text": "ast -> symbolic execution -> VCs -> z3 (fuel-unfolded spec functions, monitor-form traces)"}],
        "checks": checks,
        "not_applicable": [{"property_id": k, "reason": v} for k, v in sorted(NOT_YET.items()) if k not in CLAIMS],
        "notes": "fix: commits in /repo are recorded in /verif/known_findings.json",
    }
    json.dump(m, open("/verif/MANIFEST.json", "w"), indent=1)


if __name__ == "__main__":
    main()
